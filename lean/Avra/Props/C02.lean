/-
  C02 — label values and .org positions equal where the bytes really land.

  Model: pass 1 (`pass1Items`: sizes, labels) and pass 2 (`pass2Items`: emission) are separate
  code in /repo; the theorems state that they stay in lockstep: the address pass 1 books for every
  item is the position at which pass 2 emits its bytes.
-/
import Avra.Props.C06
import Avra.Model.Build
namespace Avra.Props.C02
open Avra Avra.Model Avra.Isa Avra.Spec Avra.Props.C06

/-! ### the second word -/

macro "snd_tac" : tactic => `(tactic| (intro h; (repeat' split at h) <;> simp_all [Option.map_eq_some_iff] <;> (try (obtain ⟨_, _, h2⟩ := h; simp_all)) ))

theorem eRR_snd {base : Nat} {args : List AArg} {w : Nat} {o : Option Nat} : eRR base args = some (w, o) → o = none := by unfold eRR; snd_tac
theorem eAdiw_snd {base : Nat} {args : List AArg} {w : Nat} {o : Option Nat} : eAdiw base args = some (w, o) → o = none := by unfold eAdiw; snd_tac
theorem eImm_snd {base : Nat} {c : Bool} {args : List AArg} {w : Nat} {o : Option Nat} : eImm base c args = some (w, o) → o = none := by unfold eImm; snd_tac
theorem eOne_snd {base : Nat} {args : List AArg} {w : Nat} {o : Option Nat} : eOne base args = some (w, o) → o = none := by unfold eOne; snd_tac
theorem eSame_snd {base : Nat} {args : List AArg} {w : Nat} {o : Option Nat} : eSame base args = some (w, o) → o = none := by unfold eSame; snd_tac
theorem eSer_snd {base : Nat} {args : List AArg} {w : Nat} {o : Option Nat} : eSer base args = some (w, o) → o = none := by unfold eSer; snd_tac
theorem eMuls_snd {base : Nat} {args : List AArg} {w : Nat} {o : Option Nat} : eMuls base args = some (w, o) → o = none := by unfold eMuls; snd_tac
theorem eMulf_snd {base : Nat} {args : List AArg} {w : Nat} {o : Option Nat} : eMulf base args = some (w, o) → o = none := by unfold eMulf; snd_tac
theorem eRel_snd {base addr : Nat} {args : List AArg} {w : Nat} {o : Option Nat} : eRel base addr args = some (w, o) → o = none := by unfold eRel; snd_tac
theorem eAbs_snd {base : Nat} {args : List AArg} {w : Nat} {o : Option Nat} : eAbs base args = some (w, o) → o.isSome = true := by unfold eAbs; snd_tac
theorem eBrb_snd {base addr : Nat} {n : Option Nat} {args : List AArg} {w : Nat} {o : Option Nat} : eBrb base addr n args = some (w, o) → o = none := by unfold eBrb; snd_tac
theorem eBr_snd {base addr : Nat} {n : Option Nat} {args : List AArg} {w : Nat} {o : Option Nat} : eBr base addr n args = some (w, o) → o = none := by unfold eBr; snd_tac
theorem eMovw_snd {base : Nat} {args : List AArg} {w : Nat} {o : Option Nat} : eMovw base args = some (w, o) → o = none := by unfold eMovw; snd_tac
theorem eDirect_snd {b : Bool} {base r : Nat} {k : Int} {w : Nat} {o : Option Nat} : eDirect b base r k = some (w, o) → o.isSome = !b := by unfold eDirect; snd_tac
theorem eLds_snd {b : Bool} {base : Nat} {args : List AArg} {w : Nat} {o : Option Nat} : eLds b base args = some (w, o) → o.isSome = !b := by
  unfold eLds; intro h; split at h
  · exact eDirect_snd h
  · simp at h
theorem eSts_snd {b : Bool} {base : Nat} {args : List AArg} {w : Nat} {o : Option Nat} : eSts b base args = some (w, o) → o.isSome = !b := by
  unfold eSts; intro h; split at h
  · exact eDirect_snd h
  · simp at h
theorem eLd_snd {base : Nat} {args : List AArg} {w : Nat} {o : Option Nat} : eLd base args = some (w, o) → o = none := by unfold eLd; snd_tac
theorem eSt_snd {base : Nat} {args : List AArg} {w : Nat} {o : Option Nat} : eSt base args = some (w, o) → o = none := by unfold eSt; snd_tac
theorem eLpm_snd {base : Nat} {e : Bool} {args : List AArg} {w : Nat} {o : Option Nat} : eLpm base e args = some (w, o) → o = none := by unfold eLpm; snd_tac
theorem eIn_snd {base : Nat} {args : List AArg} {w : Nat} {o : Option Nat} : eIn base args = some (w, o) → o = none := by unfold eIn; snd_tac
theorem eOut_snd {base : Nat} {args : List AArg} {w : Nat} {o : Option Nat} : eOut base args = some (w, o) → o = none := by unfold eOut; snd_tac
theorem eRegBit_snd {base : Nat} {args : List AArg} {w : Nat} {o : Option Nat} : eRegBit base args = some (w, o) → o = none := by unfold eRegBit; snd_tac
theorem eIoBit_snd {base : Nat} {args : List AArg} {w : Nat} {o : Option Nat} : eIoBit base args = some (w, o) → o = none := by unfold eIoBit; snd_tac
theorem eFlagV_snd {base : Nat} {args : List AArg} {w : Nat} {o : Option Nat} : eFlagV base args = some (w, o) → o = none := by unfold eFlagV; snd_tac
theorem eFlag_snd {base : Nat} {n : Option Nat} {args : List AArg} {w : Nat} {o : Option Nat} : eFlag base n args = some (w, o) → o = none := by unfold eFlag; snd_tac
theorem eNone_snd {base : Nat} {args : List AArg} {w : Nat} {o : Option Nat} : eNone base args = some (w, o) → o = none := by unfold eNone; snd_tac

/-- which instructions take two words: jmp, call, and lds/sts on cores with the 32-bit form -/
def twoWord (avr8l : Bool) (op : Op) : Bool :=
  op = .jmp || op = .call || (!avr8l && (op = .lds || op = .sts))

/-- the encoder emits a second word exactly for the two-word instructions -/
theorem encodeR_second (b : Bool) (op : Op) (args : List AArg) (addr base w : Nat) (o : Option Nat)
    (h : encodeR b op args addr base = some (w, o)) : o.isSome = twoWord b op := by
  cases op <;> simp only [encodeR] at h <;>
    first
    | (have := eRR_snd h; subst this; simp [twoWord])
    | (have := eAdiw_snd h; subst this; simp [twoWord])
    | (have := eImm_snd h; subst this; simp [twoWord])
    | (have := eOne_snd h; subst this; simp [twoWord])
    | (have := eSame_snd h; subst this; simp [twoWord])
    | (have := eSer_snd h; subst this; simp [twoWord])
    | (have := eMuls_snd h; subst this; simp [twoWord])
    | (have := eMulf_snd h; subst this; simp [twoWord])
    | (have := eRel_snd h; subst this; simp [twoWord])
    | (have := eAbs_snd h; simp [twoWord, this])
    | (have := eMovw_snd h; subst this; simp [twoWord])
    | (have := eLds_snd h; cases b <;> simp [twoWord, this])
    | (have := eSts_snd h; cases b <;> simp [twoWord, this])
    | (have := eLd_snd h; subst this; simp [twoWord])
    | (have := eSt_snd h; subst this; simp [twoWord])
    | (have := eLpm_snd h; subst this; simp [twoWord])
    | (have := eIn_snd h; subst this; simp [twoWord])
    | (have := eOut_snd h; subst this; simp [twoWord])
    | (have := eRegBit_snd h; subst this; simp [twoWord])
    | (have := eIoBit_snd h; subst this; simp [twoWord])
    | (have := eFlagV_snd h; subst this; simp [twoWord])
    | (have := eFlag_snd h; subst this; simp [twoWord])
    | (have := eNone_snd h; subst this; simp [twoWord])
    | (rename_i t; cases t <;> simp only at h <;>
        first | (have := eBrb_snd h; subst this; simp [twoWord]) | (have := eBr_snd h; subst this; simp [twoWord]))

/-- Gen obligation: the length column of the opcode table extracted from the code
    (`Operation::info().len`, the size pass 1 books) is 2 exactly for the two-word instructions -/
def infoLenOk : Bool :=
  Gen.infoTable.all fun (op, b, len, _) => len == (if twoWord b op then 2 else 1)

theorem info_len_table : infoLenOk = true := by decide +kernel

theorem infoGo_len (op : Op) (b : Bool) : ∀ (tbl : List (Op × Bool × Nat × Nat)),
    (tbl.all fun (o, b', len, _) => len == (if twoWord b' o then 2 else 1)) = true →
    ∀ len base, infoGo op b tbl = some (len, base) → len = if twoWord b op then 2 else 1 := by
  intro tbl
  induction tbl with
  | nil => intro _ len base h; simp [infoGo] at h
  | cons r rest ih =>
    intro hall len base h
    obtain ⟨o, b', l, c⟩ := r
    simp only [List.all_cons, Bool.and_eq_true] at hall
    simp only [infoGo] at h
    by_cases hm : o = op ∧ b' = b
    · simp only [hm, and_self, if_true, Option.some.injEq, Prod.mk.injEq] at h
      obtain ⟨rfl, rfl⟩ := hm
      have := hall.1; simp only [beq_iff_eq] at this
      rw [← h.1]; exact this
    · simp only [hm, if_false] at h
      exact ih hall.2 len base h

/-- the bytes `process` emits for an instruction are as many words as pass 1 booked for it -/
theorem process_len (c : Ctx) (op : Op) (args : List IOp) (addr : Nat) (bs : List Nat) (len base : Nat)
    (hstd : ∀ n, op ≠ .custom n)
    (hi : info c.device.isAvr8l op = some (len, base)) (hp : process c op args addr = .ok bs) :
    bs.length = 2 * len := by
  have hlen : len = if twoWord c.device.isAvr8l op then 2 else 1 := by
    cases op <;> first
      | exact absurd rfl (hstd _)
      | exact infoGo_len _ _ Gen.infoTable info_len_table len base hi
  unfold process at hp
  split at hp
  · cases hp
  · rw [hi] at hp
    simp only at hp
    split at hp
    · cases hp
    · rename_i rargs _
      split at hp
      · rename_i ws hws
        injection hp with hp; subst hp
        obtain ⟨w, o⟩ := ws
        have hs := encodeR_second _ _ _ _ _ _ _ hws
        cases o with
        | none =>
          have hs' : twoWord c.device.isAvr8l op = false := by simpa using hs.symm
          simp [wordsBytes, leBytes, hlen, hs']
        | some w2 =>
          have hs' : twoWord c.device.isAvr8l op = true := by simpa using hs.symm
          simp [wordsBytes, leBytes, hlen, hs']
      · cases hp

/-! ### pass 1 and pass 2 in lockstep over one code segment -/

theorem consItem_ok' (x : Nat × Item) (r : Out (Nat × List (Nat × Item) × Ctx)) (e : Nat) (o : List (Nat × Item)) (c : Ctx)
    (h : consItem x r = .ok (e, o, c)) : ∃ o', o = x :: o' ∧ r = .ok (e, o', c) := by
  cases r with
  | ok v =>
    obtain ⟨e', o', c'⟩ := v
    simp only [consItem, Out.ok.injEq, Prod.mk.injEq] at h
    exact ⟨o', h.2.1.symm, by rw [h.1, h.2.2]⟩
  | error x => simp [consItem] at h
  | panic x => simp [consItem] at h
  | oof => simp [consItem] at h

/-- all operations of a pass-1 item list are standard mnemonics (pass 0 expanded every macro
    call or failed) -/
def noCustom : List (Nat × Item) → Prop
  | [] => True
  | (_, .instruction (.custom _) _) :: _ => False
  | _ :: rest => noCustom rest

theorem actualLen_append (ops : List Operand) (o : Operand) : actualLen (ops ++ [o]) = actualLen ops + operandLen o := by
  unfold actualLen
  rw [List.foldl_append]; rfl

/-- C02, one code segment: whatever pass 1 booked (end offset `e` for the items from word address
    `cur`) is what pass 2 emits — the byte count is even and `e = cur + emitted/2`.  By induction
    over the item list: every instruction (1 or 2 words; 1-word lds/sts on reduced cores), every
    `.db` line (odd ones padded by pass 1), `.dw/.dd/.dq`, `.set/.def/.undef`, labels and pragmas. -/
theorem code_lockstep (limit : Nat) : ∀ (items : List (Nat × Item)) (cur : Nat) (ctx1 : Ctx) (e : Nat)
    (its : List (Nat × Item)) (ctx1' : Ctx) (acc : List Nat) (ctx2 : Ctx) (bytes : List Nat) (ctx2' : Ctx),
    noCustom items → ctx2.device = ctx1.device →
    pass1Items .code limit items cur ctx1 = .ok (e, its, ctx1') →
    pass2Items .code its cur acc ctx2 = .ok (bytes, ctx2') →
    ∃ emitted, bytes = acc ++ emitted ∧ emitted.length % 2 = 0 ∧ e = cur + emitted.length / 2 := by
  intro items
  induction items with
  | nil =>
    intro cur ctx1 e its ctx1' acc ctx2 bytes ctx2' _ _ h1 h2
    unfold pass1Items at h1
    split at h1
    · simp [noLineErr] at h1
    · simp only [Out.ok.injEq, Prod.mk.injEq] at h1
      obtain ⟨rfl, rfl, _⟩ := h1
      simp only [pass2Items, Out.ok.injEq, Prod.mk.injEq] at h2
      exact ⟨[], by simp [h2.1], rfl, by simp⟩
  | cons x rest ih =>
    intro cur ctx1 e its ctx1' acc ctx2 bytes ctx2' hnc hdev h1 h2
    obtain ⟨ln, it⟩ := x
    unfold pass1Items at h1
    split at h1
    · simp [lineErr] at h1
    · have hdev1 : ∀ (lb : List (Str × (SegT × Nat))), ({ ctx1 with labels := lb } : Ctx).device = ctx1.device := fun _ => rfl
      cases it with
      | label name =>
        simp only at h1
        split at h1
        · simp [lineErr] at h1
        · exact ih _ _ _ _ _ _ _ _ _ (by simpa [noCustom] using hnc) (by rw [hdev]) h1 h2
      | instruction op args =>
        simp only at h1
        cases hinf : info ctx1.device.isAvr8l op with
        | none => simp [hinf] at h1
        | some lb =>
          obtain ⟨len, base⟩ := lb
          simp only [hinf] at h1
          obtain ⟨its', rfl, h1'⟩ := consItem_ok' _ _ _ _ _ h1
          have hstd : ∀ n, op ≠ .custom n := by
            intro n hn; subst hn; simp [noCustom] at hnc
          simp only [pass2Items] at h2
          split at h2
          · -- allowed for the device
            generalize hc2 : ({ ctx2 with special := ainsert "pc".toList (Expr.const (cur : Int)) ctx2.special } : Ctx) = c2 at h2
            have hdev2 : c2.device = ctx1.device := by rw [← hc2]; exact hdev
            cases hp : process c2 op args cur with
            | ok bs0 =>
              rw [hp] at h2; simp only at h2
              have hl := process_len c2 op args cur bs0 len base hstd (by rw [hdev2]; exact hinf) hp
              have hn : noCustom rest := by cases op <;> simpa [noCustom] using hnc
              obtain ⟨em, hb, hev, he⟩ := ih _ _ _ _ _ _ _ _ _ hn hdev2 h1' (by rw [hl] at h2; simpa using h2)
              refine ⟨bs0 ++ em, by rw [hb]; simp, by rw [List.length_append, hl]; omega, ?_⟩
              rw [List.length_append, hl, he]; omega
            | err => rw [hp] at h2; simp [lineErr] at h2
            | oof => rw [hp] at h2; cases h2
          · simp [lineErr] at h2
      | set name ex =>
        simp only at h1
        obtain ⟨its', rfl, h1'⟩ := consItem_ok' _ _ _ _ _ h1
        have hn : noCustom rest := by simpa [noCustom] using hnc
        simp only [pass2Items] at h2
        split at h2
        · simp [lineErr] at h2
        · cases h2
        · split at h2
          · split at h2
            · exact ih _ _ _ _ _ _ _ _ _ hn (by simpa using hdev) h1' h2
            · simp [lineErr] at h2
          · exact ih _ _ _ _ _ _ _ _ _ hn (by simpa using hdev) h1' h2
      | «def» name ex =>
        simp only at h1
        obtain ⟨its', rfl, h1'⟩ := consItem_ok' _ _ _ _ _ h1
        have hn : noCustom rest := by simpa [noCustom] using hnc
        cases ex with
        | ident reg =>
          simp only [pass2Items] at h2
          split at h2
          · simp [lineErr] at h2
          · split at h2
            · simp [lineErr] at h2
            · split at h2
              · exact ih _ _ _ _ _ _ _ _ _ hn (by simpa using hdev) h1' h2
              · exact ih _ _ _ _ _ _ _ _ _ hn (by simpa using hdev) h1' h2
        | const v => simp [pass2Items, lineErr] at h2
        | func a b => simp [pass2Items, lineErr] at h2
        | bin o a b => simp [pass2Items, lineErr] at h2
        | un o a => simp [pass2Items, lineErr] at h2
      | undef name =>
        simp only at h1
        obtain ⟨its', rfl, h1'⟩ := consItem_ok' _ _ _ _ _ h1
        have hn : noCustom rest := by simpa [noCustom] using hnc
        simp only [pass2Items] at h2
        split at h2
        · exact ih _ _ _ _ _ _ _ _ _ hn (by simpa using hdev) h1' h2
        · simp [lineErr] at h2
      | data dt ops =>
        have hn : noCustom rest := by simpa [noCustom] using hnc
        cases dt with
        | db =>
          simp only at h1
          obtain ⟨its', rfl, h1'⟩ := consItem_ok' _ _ _ _ _ h1
          simp only [pass2Items] at h2
          generalize hops : (if actualLen ops % 2 = 1 then ops ++ [Operand.e (Expr.const 0)] else ops) = ops' at h1' h2
          have heven : actualLen ops' % 2 = 0 := by
            rw [← hops]; split
            · rw [actualLen_append]; simp [operandLen]; omega
            · omega
          generalize hc2 : ({ ctx2 with special := ainsert "pc".toList (Expr.const (cur : Int)) ctx2.special } : Ctx) = c2 at h2
          have hdev2 : c2.device = ctx1.device := by rw [← hc2]; exact hdev
          cases hd : dataBytes c2 .db ops' with
          | ok bs0 =>
            rw [hd] at h2; simp only [if_true] at h2
            have hl := db_length c2 ops' bs0 hd
            obtain ⟨em, hb, hev, he⟩ := ih _ _ _ _ _ _ _ _ _ hn hdev2 h1' (by rw [hl] at h2; exact h2)
            refine ⟨bs0 ++ em, by rw [hb]; simp, by rw [List.length_append, hl]; omega, ?_⟩
            rw [List.length_append, hl, he]; omega
          | err => rw [hd] at h2; simp [lineErr] at h2
          | oof => rw [hd] at h2; cases h2
        | dw =>
          simp only at h1
          obtain ⟨its', rfl, h1'⟩ := consItem_ok' _ _ _ _ _ h1
          simp only [pass2Items] at h2
          generalize hc2 : ({ ctx2 with special := ainsert "pc".toList (Expr.const (cur : Int)) ctx2.special } : Ctx) = c2 at h2
          have hdev2 : c2.device = ctx1.device := by rw [← hc2]; exact hdev
          cases hd : dataBytes c2 .dw ops with
          | ok bs0 =>
            rw [hd] at h2; simp only [if_true] at h2
            have hl := word_length c2 .dw (by decide) ops bs0 hd
            simp only [widthOf] at hl
            obtain ⟨em, hb, hev, he⟩ := ih _ _ _ _ _ _ _ _ _ hn hdev2 h1' (by rw [hl] at h2; simpa using h2)
            refine ⟨bs0 ++ em, by rw [hb]; simp, by rw [List.length_append, hl]; omega, ?_⟩
            rw [List.length_append, hl, he]; omega
          | err => rw [hd] at h2; simp [lineErr] at h2
          | oof => rw [hd] at h2; cases h2
        | dd =>
          simp only at h1
          obtain ⟨its', rfl, h1'⟩ := consItem_ok' _ _ _ _ _ h1
          simp only [pass2Items] at h2
          generalize hc2 : ({ ctx2 with special := ainsert "pc".toList (Expr.const (cur : Int)) ctx2.special } : Ctx) = c2 at h2
          have hdev2 : c2.device = ctx1.device := by rw [← hc2]; exact hdev
          cases hd : dataBytes c2 .dd ops with
          | ok bs0 =>
            rw [hd] at h2; simp only [if_true] at h2
            have hl := word_length c2 .dd (by decide) ops bs0 hd
            simp only [widthOf] at hl
            obtain ⟨em, hb, hev, he⟩ := ih _ _ _ _ _ _ _ _ _ hn hdev2 h1' (by
              have : bs0.length / 2 = ops.length * (4 / 2) := by rw [hl]; omega
              rw [this] at h2; exact h2)
            refine ⟨bs0 ++ em, by rw [hb]; simp, by rw [List.length_append, hl]; omega, ?_⟩
            rw [List.length_append, hl, he]; omega
          | err => rw [hd] at h2; simp [lineErr] at h2
          | oof => rw [hd] at h2; cases h2
        | dq =>
          simp only at h1
          obtain ⟨its', rfl, h1'⟩ := consItem_ok' _ _ _ _ _ h1
          simp only [pass2Items] at h2
          generalize hc2 : ({ ctx2 with special := ainsert "pc".toList (Expr.const (cur : Int)) ctx2.special } : Ctx) = c2 at h2
          have hdev2 : c2.device = ctx1.device := by rw [← hc2]; exact hdev
          cases hd : dataBytes c2 .dq ops with
          | ok bs0 =>
            rw [hd] at h2; simp only [if_true] at h2
            have hl := word_length c2 .dq (by decide) ops bs0 hd
            simp only [widthOf] at hl
            obtain ⟨em, hb, hev, he⟩ := ih _ _ _ _ _ _ _ _ _ hn hdev2 h1' (by
              have : bs0.length / 2 = ops.length * (8 / 2) := by rw [hl]; omega
              rw [this] at h2; exact h2)
            refine ⟨bs0 ++ em, by rw [hb]; simp, by rw [List.length_append, hl]; omega, ?_⟩
            rw [List.length_append, hl, he]; omega
          | err => rw [hd] at h2; simp [lineErr] at h2
          | oof => rw [hd] at h2; cases h2
      | reserveData n => simp [lineErr] at h1
      | pragma ops =>
        simp only at h1
        exact ih _ _ _ _ _ _ _ _ _ (by simpa [noCustom] using hnc) hdev h1 h2

/-- C02, one EEPROM segment: whatever pass 1 booked (end offset `e` for the items from byte address
    `cur`) is what pass 2 emits — `e = cur + emitted` in BYTES: `.db` lines are not padded here,
    `.dw/.dd/.dq` take their width, `.byte n` reserves n zero bytes; instructions are refused. -/
theorem eeprom_lockstep (limit : Nat) : ∀ (items : List (Nat × Item)) (cur : Nat) (ctx1 : Ctx) (e : Nat)
    (its : List (Nat × Item)) (ctx1' : Ctx) (acc : List Nat) (ctx2 : Ctx) (bytes : List Nat) (ctx2' : Ctx),
    pass1Items .eeprom limit items cur ctx1 = .ok (e, its, ctx1') →
    pass2Items .eeprom its cur acc ctx2 = .ok (bytes, ctx2') →
    ∃ emitted, bytes = acc ++ emitted ∧ e = cur + emitted.length := by
  intro items
  induction items with
  | nil =>
    intro cur ctx1 e its ctx1' acc ctx2 bytes ctx2' h1 h2
    unfold pass1Items at h1
    split at h1
    · simp [noLineErr] at h1
    · simp only [Out.ok.injEq, Prod.mk.injEq] at h1
      obtain ⟨rfl, rfl, _⟩ := h1
      simp only [pass2Items, Out.ok.injEq, Prod.mk.injEq] at h2
      exact ⟨[], by simp [h2.1], by simp⟩
  | cons x rest ih =>
    intro cur ctx1 e its ctx1' acc ctx2 bytes ctx2' h1 h2
    obtain ⟨ln, it⟩ := x
    unfold pass1Items at h1
    split at h1
    · simp [lineErr] at h1
    · cases it with
      | label name =>
        simp only at h1
        split at h1
        · simp [lineErr] at h1
        · exact ih _ _ _ _ _ _ _ _ _ h1 h2
      | instruction op args => simp [lineErr] at h1
      | set name ex =>
        simp only at h1
        obtain ⟨its', rfl, h1'⟩ := consItem_ok' _ _ _ _ _ h1
        simp only [pass2Items] at h2
        split at h2
        · simp [lineErr] at h2
        · cases h2
        · split at h2
          · split at h2
            · exact ih _ _ _ _ _ _ _ _ _ h1' h2
            · simp [lineErr] at h2
          · exact ih _ _ _ _ _ _ _ _ _ h1' h2
      | «def» name ex =>
        simp only at h1
        obtain ⟨its', rfl, h1'⟩ := consItem_ok' _ _ _ _ _ h1
        cases ex with
        | ident reg =>
          simp only [pass2Items] at h2
          split at h2
          · simp [lineErr] at h2
          · split at h2
            · simp [lineErr] at h2
            · split at h2
              · exact ih _ _ _ _ _ _ _ _ _ h1' h2
              · exact ih _ _ _ _ _ _ _ _ _ h1' h2
        | const v => simp [pass2Items, lineErr] at h2
        | func a b => simp [pass2Items, lineErr] at h2
        | bin o a b => simp [pass2Items, lineErr] at h2
        | un o a => simp [pass2Items, lineErr] at h2
      | undef name =>
        simp only at h1
        obtain ⟨its', rfl, h1'⟩ := consItem_ok' _ _ _ _ _ h1
        simp only [pass2Items] at h2
        split at h2
        · exact ih _ _ _ _ _ _ _ _ _ h1' h2
        · simp [lineErr] at h2
      | data dt ops =>
        cases dt with
        | db =>
          simp only at h1
          obtain ⟨its', rfl, h1'⟩ := consItem_ok' _ _ _ _ _ h1
          simp only [pass2Items] at h2
          generalize hc2 : ({ ctx2 with special := ainsert "pc".toList (Expr.const (cur : Int)) ctx2.special } : Ctx) = c2 at h2
          cases hd : dataBytes c2 .db ops with
          | ok bs0 =>
            rw [hd] at h2; simp only [reduceCtorEq, if_false] at h2
            have hl := db_length c2 ops bs0 hd
            obtain ⟨em, hb, he⟩ := ih _ _ _ _ _ _ _ _ _ h1' (by rw [hl] at h2; exact h2)
            refine ⟨bs0 ++ em, by rw [hb]; simp, ?_⟩
            rw [List.length_append, hl, he]; omega
          | err => rw [hd] at h2; simp [lineErr] at h2
          | oof => rw [hd] at h2; cases h2
        | dw =>
          simp only at h1
          obtain ⟨its', rfl, h1'⟩ := consItem_ok' _ _ _ _ _ h1
          simp only [pass2Items] at h2
          generalize hc2 : ({ ctx2 with special := ainsert "pc".toList (Expr.const (cur : Int)) ctx2.special } : Ctx) = c2 at h2
          cases hd : dataBytes c2 .dw ops with
          | ok bs0 =>
            rw [hd] at h2; simp only [reduceCtorEq, if_false] at h2
            have hl := word_length c2 .dw (by decide) ops bs0 hd
            simp only [widthOf] at hl
            obtain ⟨em, hb, he⟩ := ih _ _ _ _ _ _ _ _ _ h1' (by rw [hl] at h2; exact h2)
            refine ⟨bs0 ++ em, by rw [hb]; simp, ?_⟩
            rw [List.length_append, hl, he]; omega
          | err => rw [hd] at h2; simp [lineErr] at h2
          | oof => rw [hd] at h2; cases h2
        | dd =>
          simp only at h1
          obtain ⟨its', rfl, h1'⟩ := consItem_ok' _ _ _ _ _ h1
          simp only [pass2Items] at h2
          generalize hc2 : ({ ctx2 with special := ainsert "pc".toList (Expr.const (cur : Int)) ctx2.special } : Ctx) = c2 at h2
          cases hd : dataBytes c2 .dd ops with
          | ok bs0 =>
            rw [hd] at h2; simp only [reduceCtorEq, if_false] at h2
            have hl := word_length c2 .dd (by decide) ops bs0 hd
            simp only [widthOf] at hl
            obtain ⟨em, hb, he⟩ := ih _ _ _ _ _ _ _ _ _ h1' (by rw [hl] at h2; exact h2)
            refine ⟨bs0 ++ em, by rw [hb]; simp, ?_⟩
            rw [List.length_append, hl, he]; omega
          | err => rw [hd] at h2; simp [lineErr] at h2
          | oof => rw [hd] at h2; cases h2
        | dq =>
          simp only at h1
          obtain ⟨its', rfl, h1'⟩ := consItem_ok' _ _ _ _ _ h1
          simp only [pass2Items] at h2
          generalize hc2 : ({ ctx2 with special := ainsert "pc".toList (Expr.const (cur : Int)) ctx2.special } : Ctx) = c2 at h2
          cases hd : dataBytes c2 .dq ops with
          | ok bs0 =>
            rw [hd] at h2; simp only [reduceCtorEq, if_false] at h2
            have hl := word_length c2 .dq (by decide) ops bs0 hd
            simp only [widthOf] at hl
            obtain ⟨em, hb, he⟩ := ih _ _ _ _ _ _ _ _ _ h1' (by rw [hl] at h2; exact h2)
            refine ⟨bs0 ++ em, by rw [hb]; simp, ?_⟩
            rw [List.length_append, hl, he]; omega
          | err => rw [hd] at h2; simp [lineErr] at h2
          | oof => rw [hd] at h2; cases h2
      | reserveData n =>
        simp only at h1
        split at h1
        · simp [lineErr] at h1
        · simp only [if_true] at h1
          obtain ⟨its', rfl, h1'⟩ := consItem_ok' _ _ _ _ _ h1
          simp only [pass2Items] at h2
          obtain ⟨em, hb, he⟩ := ih _ _ _ _ _ _ _ _ _ h1' h2
          refine ⟨List.replicate n.toNat 0 ++ em, by rw [hb]; simp, ?_⟩
          rw [List.length_append, List.length_replicate, he]; omega
      | pragma ops =>
        simp only at h1
        exact ih _ _ _ _ _ _ _ _ _ h1 h2

/-- a data segment reserves and emits nothing: its end offset is its start plus the sizes of its
    `.byte` directives, and each label gets the offset reached before it (`label_is_next_position`) -/
theorem dseg_reserve (limit : Nat) (ln : Nat) (n : Int) (rest : List (Nat × Item)) (cur : Nat) (ctx : Ctx)
    (hlim : ¬ cur > limit) (hn : ¬ (n < 0 ∨ n > 4294967295)) :
    pass1Items .data limit ((ln, .reserveData n) :: rest) cur ctx = pass1Items .data limit rest (cur + n.toNat) ctx := by
  conv => lhs; unfold pass1Items
  simp [hlim, hn]

/-- a label is given the address at which the next item of its segment is emitted (pass 1 step) -/
theorem label_is_next_position (t : SegT) (limit : Nat) (ln : Nat) (name : Str) (rest : List (Nat × Item))
    (cur : Nat) (ctx : Ctx) (hlim : ¬ cur > limit) (hnew : ctx.exist name = false) :
    pass1Items t limit ((ln, .label name) :: rest) cur ctx =
      pass1Items t limit rest cur { ctx with labels := ainsert name (t, cur % 4294967296) ctx.labels } := by
  conv => lhs; unfold pass1Items
  simp [hlim, hnew]

/-- a label whose name is already taken (by a label, .equ, .set, .define or .def) fails the
    build, naming the line -/
theorem duplicate_label_error (t : SegT) (limit : Nat) (ln : Nat) (name : Str) (rest : List (Nat × Item))
    (cur : Nat) (ctx : Ctx) (hlim : ¬ cur > limit) (hdup : ctx.exist name = true) :
    pass1Items t limit ((ln, .label name) :: rest) cur ctx = .error ⟨some ln, "label-twice"⟩ := by
  conv => lhs; unfold pass1Items
  simp [hlim, hdup, lineErr]

/-- `.org N` (N at or beyond the running offset): pass 2 pads the image with zero bytes so that
    the segment's first byte lands at byte offset 2·N exactly -/
theorem org_lands (code : List Nat) (addr : Nat) (heven : code.length % 2 = 0) (hge : code.length / 2 ≤ addr) :
    (code ++ List.replicate (2 * (addr - code.length / 2)) 0).length = 2 * addr := by
  simp; omega

/-- the padding is zero bytes only, and what was emitted before is not touched -/
theorem org_gap_zero (code : List Nat) (addr : Nat) (i : Nat) (hi : code.length ≤ i)
    (hlt : i < (code ++ List.replicate (2 * (addr - code.length / 2)) 0).length) :
    (code ++ List.replicate (2 * (addr - code.length / 2)) 0)[i]? = some 0 := by
  rw [List.getElem?_append_right hi, List.getElem?_replicate]
  simp only [List.length_append, List.length_replicate] at hlt
  have : i - code.length < 2 * (addr - code.length / 2) := by omega
  simp [this]

/-! ### segments: where pass 1 places them and where pass 2 puts their bytes -/

/-- **A code segment lands at its address.**  Pass 2 pads the flash image with zero bytes up to
    byte offset 2·address (when the image is shorter), appends the segment's bytes there and goes
    on: nothing emitted before is touched, shifted or dropped. -/
theorem code_segment_lands (p1 : Pass1Result) (s : Segment) (more : List Segment) (code ee : List Nat) (ctx ctx' : Ctx)
    (frag : List Nat) (ht : s.t = .code) (heven : code.length % 2 = 0) (hge : code.length / 2 ≤ s.address)
    (hp : pass2Items .code s.items s.address [] ctx = .ok (frag, ctx')) :
    pass2.go p1 (s :: more) code ee ctx =
      pass2.go p1 more (code ++ List.replicate (2 * (s.address - code.length / 2)) 0 ++ frag) ee ctx' ∧
    (code ++ List.replicate (2 * (s.address - code.length / 2)) 0).length = 2 * s.address := by
  constructor
  · conv => lhs; unfold pass2.go
    simp only [ht, hp]
  · exact org_lands code s.address heven hge

/-- the same for an EEPROM segment, in bytes -/
theorem eeprom_segment_lands (p1 : Pass1Result) (s : Segment) (more : List Segment) (code ee : List Nat) (ctx ctx' : Ctx)
    (frag : List Nat) (ht : s.t = .eeprom) (hge : ee.length ≤ s.address)
    (hp : pass2Items .eeprom s.items s.address [] ctx = .ok (frag, ctx')) :
    pass2.go p1 (s :: more) code ee ctx =
      pass2.go p1 more code (ee ++ List.replicate (s.address - ee.length) 0 ++ frag) ctx' ∧
    (ee ++ List.replicate (s.address - ee.length) 0).length = s.address := by
  constructor
  · conv => lhs; unfold pass2.go
    simp only [ht, hp]
  · simp; omega

/-- a data segment emits nothing -/
theorem data_segment_emits_nothing (p1 : Pass1Result) (s : Segment) (more : List Segment) (code ee : List Nat) (ctx ctx' : Ctx)
    (frag : List Nat) (ht : s.t = .data) (hp : pass2Items .data s.items s.address [] ctx = .ok (frag, ctx')) :
    pass2.go p1 (s :: more) code ee ctx = pass2.go p1 more code ee ctx' := by
  conv => lhs; unfold pass2.go
  simp only [ht, hp]

/-- **Pass 1 places a code segment** at its `.org` address, or — without `.org` (address 0) — at
    the running code offset; an `.org` below the running offset is an overlap error; the running
    offset then becomes the end pass 1 booked (`code_lockstep`: exactly what pass 2 emits).
    (The EEPROM and data memories: the same with their own offsets, `pass1_places_eeprom_segment`.) -/
theorem pass1_places_code_segment (msgs : List Str) (dev : Device) (s : Segment) (more out : List Segment)
    (cO dO eO : Nat) (ctx : Ctx) (ht : s.t = .code) :
    pass1.go msgs dev (s :: more) cO dO eO out ctx =
      if s.address ≠ 0 ∧ s.address < cO then noLineErr "overlap" else
      match pass1Items .code dev.flash s.items (if s.address = 0 then cO else s.address) ctx with
      | .ok (endOff, items, ctx') =>
        pass1.go msgs dev more endOff dO eO ({ items := items, t := .code, address := if s.address = 0 then cO else s.address } :: out) ctx'
      | .error e => .error e
      | .panic p => .panic p
      | .oof => .oof := by
  conv => lhs; unfold pass1.go
  simp only [ht]
  rfl

theorem pass1_places_eeprom_segment (msgs : List Str) (dev : Device) (s : Segment) (more out : List Segment)
    (cO dO eO : Nat) (ctx : Ctx) (ht : s.t = .eeprom) :
    pass1.go msgs dev (s :: more) cO dO eO out ctx =
      if s.address ≠ 0 ∧ s.address < eO then noLineErr "overlap" else
      match pass1Items .eeprom dev.eeprom s.items (if s.address = 0 then eO else s.address) ctx with
      | .ok (endOff, items, ctx') =>
        pass1.go msgs dev more cO dO endOff ({ items := items, t := .eeprom, address := if s.address = 0 then eO else s.address } :: out) ctx'
      | .error e => .error e
      | .panic p => .panic p
      | .oof => .oof := by
  conv => lhs; unfold pass1.go
  simp only [ht]
  rfl

end Avra.Props.C02
