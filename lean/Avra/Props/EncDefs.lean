/-
  Definitions and small lemmas shared by the encoding properties (C01, C03, C04, C13).
-/
import Avra.Lemmas.Families2
import Avra.Lemmas.AllIn
namespace Avra.Props.Enc
open Avra Avra.Model Avra.Isa Avra.Lemmas

/-- the model's `process` at the level of resolved operands: opcode/length row from the table
    extracted from the code, operand-count check, arm of `process` -/
def mWords (avr8l : Bool) (op : Op) (args : List AArg) (addr : Nat) : Option (List Nat) :=
  match info avr8l op with
  | none => none
  | some (_, base) =>
    if !(allowedArgs op).contains args.length then none else wordsOf (encodeR avr8l op args addr base)

/-- the independent spec: legality, then the manual's bit patterns -/
def sWords (avr8l : Bool) (op : Op) (args : List AArg) (addr : Nat) : Option (List Nat) :=
  (surface avr8l op args addr).map encode

theorem with_arity {α : Type} (arity : List Nat) (len : Nat) (m : Option (List Nat)) (s : Option α)
    (f : α → List Nat) (heq : m = s.map f) (hlen : s.isSome = true → arity.contains len = true) :
    (if !arity.contains len then none else m) = s.map f := by
  cases hs : s with
  | none => subst hs; simp [heq]
  | some a =>
    have := hlen (by simp [hs])
    rw [this]; simp [heq, hs]

macro "len_tac" : tactic => `(tactic| (intro h; split at h <;> simp_all))

theorem sRR_len {o : RROp} {args : List AArg} : (sRR o args).isSome = true → args.length = 2 := by
  unfold sRR; len_tac
theorem sRRsame_len {o : RROp} {args : List AArg} : (sRRsame o args).isSome = true → args.length = 1 := by
  unfold sRRsame; len_tac
theorem sOne_len {o : OneOp} {args : List AArg} : (sOne o args).isSome = true → args.length = 1 := by
  unfold sOne; len_tac
theorem sImm_len {o : ImmOp} {f : Nat → Nat} {args : List AArg} : (sImm o f args).isSome = true → args.length = 2 := by
  unfold sImm; len_tac
theorem sSer_len {args : List AArg} : (sSer args).isSome = true → args.length = 1 := by
  unfold sSer; len_tac
theorem sAdiw_len {s : Bool} {args : List AArg} : (sAdiw s args).isSome = true → args.length = 2 := by
  unfold sAdiw; len_tac
theorem sMuls_len {args : List AArg} : (sMuls args).isSome = true → args.length = 2 := by
  unfold sMuls; len_tac
theorem sMulf_len {o : MulfOp} {args : List AArg} : (sMulf o args).isSome = true → args.length = 2 := by
  unfold sMulf; len_tac
theorem sMovw_len {args : List AArg} : (sMovw args).isSome = true → args.length = 2 := by
  unfold sMovw; len_tac
theorem sRel_len {c : Bool} {a : Nat} {args : List AArg} : (sRel c a args).isSome = true → args.length = 1 := by
  unfold sRel; len_tac
theorem sAbs_len {c : Bool} {args : List AArg} : (sAbs c args).isSome = true → args.length = 1 := by
  unfold sAbs; len_tac
theorem sBrb_len {c : Bool} {a : Nat} {args : List AArg} : (sBrb c a args).isSome = true → args.length = 2 := by
  unfold sBrb; len_tac
theorem sBr_len {b : BranchT} {a : Nat} {args : List AArg} : (sBr b a args).isSome = true → args.length = 1 := by
  unfold sBr; len_tac
theorem sLds_len {c : Bool} {args : List AArg} : (sLds c args).isSome = true → args.length = 2 := by
  unfold sLds; len_tac
theorem sSts_len {c : Bool} {args : List AArg} : (sSts c args).isSome = true → args.length = 2 := by
  unfold sSts; len_tac
theorem sLd_len {args : List AArg} : (sLd args).isSome = true → args.length = 2 := by
  unfold sLd; len_tac
theorem sSt_len {args : List AArg} : (sSt args).isSome = true → args.length = 2 := by
  unfold sSt; len_tac
theorem sLpm_len {e : Bool} {args : List AArg} : (sLpm e args).isSome = true → args.length = 0 ∨ args.length = 2 := by
  unfold sLpm; len_tac
theorem sIn_len {args : List AArg} : (sIn args).isSome = true → args.length = 2 := by
  unfold sIn; len_tac
theorem sOut_len {args : List AArg} : (sOut args).isSome = true → args.length = 2 := by
  unfold sOut; len_tac
theorem sRegBit_len {mk : Nat → Nat → Instr} {args : List AArg} : (sRegBit mk args).isSome = true → args.length = 2 := by
  unfold sRegBit; len_tac
theorem sIoBit_len {o : IoBitOp} {args : List AArg} : (sIoBit o args).isSome = true → args.length = 2 := by
  unfold sIoBit; len_tac
theorem sFlagV_len {c : Bool} {args : List AArg} : (sFlagV c args).isSome = true → args.length = 1 := by
  unfold sFlagV; len_tac
theorem sNone_len {i : Instr} {args : List AArg} : (sNone i args).isSome = true → args.length = 0 := by
  unfold sNone; len_tac

/-- Boolean form of `idxPackOk` for kernel evaluation -/
def idxPackCheck (base : Nat) (st : Bool) : Bool :=
  allIn (fun r =>
    ([AIndex.plain .x, .plain .y, .plain .z, .postInc .x, .postInc .y, .postInc .z,
      .preDec .x, .preDec .y, .preDec .z].all fun i =>
        decide ((indexBits i).map (fun b => [packOne base r ||| b]) = idxSpec st r i)) &&
    allIn (fun q => [Reg16.y, .z].all fun p =>
        decide ([packOne base r ||| (regValue p ||| packDisp q)] =
          encode (if st then .std (p = .z) q r else .ldd r (p = .z) q))) 6 0) 5 0

theorem idxPackOk_of_check (base : Nat) (st : Bool) (h : idxPackCheck base st = true) : idxPackOk base st := by
  intro r hr
  have h1 := allIn1 _ 5 h r hr
  simp only [Bool.and_eq_true, List.all_eq_true, decide_eq_true_eq] at h1
  refine ⟨fun i hi => h1.1 i hi, fun q hq p hp => ?_⟩
  have h2 := allIn1 _ 6 h1.2 q hq
  simp only [List.all_eq_true, decide_eq_true_eq] at h2
  exact h2 p hp

end Avra.Props.Enc
