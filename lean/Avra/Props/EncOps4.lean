/-
  Per-mnemonic encoding lemmas (text produced once by tools/mk_enc_props.py, maintained as source).
  For every mnemonic: the opcode/length row extracted from the code (Gen.infoTable) is the ISA's,
  the arm's bit packing equals the ISA pattern on its WHOLE finite operand table (kernel
  evaluation, `decide +kernel` over `allIn`), hence — by the family lemmas, for all operand lists
  and all i64 values — model words = ISA encoding of what the legality spec says.
-/
import Avra.Props.EncDefs
namespace Avra.Props.Enc
open Avra Avra.Model Avra.Isa Avra.Lemmas
set_option maxRecDepth 1000000

theorem info_breq (b : Bool) : info b (.br .eq) = some (1, 0xf000) := by cases b <;> decide

theorem num_breq : lookupOp (.br .eq) Gen.brNum = some 1 := by decide

theorem pack_breq : ∀ f, f < 128 →
    packBr 0xf000 0 1 f = word (if false then pat!"1111 01kk kkkk ksss" else pat!"1111 00kk kkkk ksss") [(fld!"s", 1), (fld!"k", f)] := by
  have h := allIn1 (fun (f : Nat) => decide (packBr 0xf000 0 1 f = word (if false then pat!"1111 01kk kkkk ksss" else pat!"1111 00kk kkkk ksss") [(fld!"s", 1), (fld!"k", f)])) 7 (by decide +kernel)
  intro f hf; simpa using h f hf

theorem enc_breq (b : Bool) (args : List AArg) (addr : Nat) (hr : regsOk args) :
    mWords b (.br .eq) args addr = sWords b (.br .eq) args addr := by
  unfold mWords sWords
  rw [info_breq b]
  show (if !(allowedArgs (.br .eq)).contains args.length then none else wordsOf (eBr 0xf000 addr (lookupOp (.br .eq) Gen.brNum) args)) = _
  rw [num_breq]
  exact with_arity _ _ _ _ _ (fam_br 0xf000 addr .eq false 1 1 rfl pack_breq args hr) (fun h => by have := sBr_len (b := .eq) (a := addr) (args := args) h; simp [allowedArgs, this])

theorem info_brne (b : Bool) : info b (.br .ne) = some (1, 0xf000) := by cases b <;> decide

theorem num_brne : lookupOp (.br .ne) Gen.brNum = some 1025 := by decide

theorem pack_brne : ∀ f, f < 128 →
    packBr 0xf000 0 1025 f = word (if true then pat!"1111 01kk kkkk ksss" else pat!"1111 00kk kkkk ksss") [(fld!"s", 1), (fld!"k", f)] := by
  have h := allIn1 (fun (f : Nat) => decide (packBr 0xf000 0 1025 f = word (if true then pat!"1111 01kk kkkk ksss" else pat!"1111 00kk kkkk ksss") [(fld!"s", 1), (fld!"k", f)])) 7 (by decide +kernel)
  intro f hf; simpa using h f hf

theorem enc_brne (b : Bool) (args : List AArg) (addr : Nat) (hr : regsOk args) :
    mWords b (.br .ne) args addr = sWords b (.br .ne) args addr := by
  unfold mWords sWords
  rw [info_brne b]
  show (if !(allowedArgs (.br .ne)).contains args.length then none else wordsOf (eBr 0xf000 addr (lookupOp (.br .ne) Gen.brNum) args)) = _
  rw [num_brne]
  exact with_arity _ _ _ _ _ (fam_br 0xf000 addr .ne true 1 1025 rfl pack_brne args hr) (fun h => by have := sBr_len (b := .ne) (a := addr) (args := args) h; simp [allowedArgs, this])

theorem info_brcs (b : Bool) : info b (.br .cs) = some (1, 0xf000) := by cases b <;> decide

theorem num_brcs : lookupOp (.br .cs) Gen.brNum = some 0 := by decide

theorem pack_brcs : ∀ f, f < 128 →
    packBr 0xf000 0 0 f = word (if false then pat!"1111 01kk kkkk ksss" else pat!"1111 00kk kkkk ksss") [(fld!"s", 0), (fld!"k", f)] := by
  have h := allIn1 (fun (f : Nat) => decide (packBr 0xf000 0 0 f = word (if false then pat!"1111 01kk kkkk ksss" else pat!"1111 00kk kkkk ksss") [(fld!"s", 0), (fld!"k", f)])) 7 (by decide +kernel)
  intro f hf; simpa using h f hf

theorem enc_brcs (b : Bool) (args : List AArg) (addr : Nat) (hr : regsOk args) :
    mWords b (.br .cs) args addr = sWords b (.br .cs) args addr := by
  unfold mWords sWords
  rw [info_brcs b]
  show (if !(allowedArgs (.br .cs)).contains args.length then none else wordsOf (eBr 0xf000 addr (lookupOp (.br .cs) Gen.brNum) args)) = _
  rw [num_brcs]
  exact with_arity _ _ _ _ _ (fam_br 0xf000 addr .cs false 0 0 rfl pack_brcs args hr) (fun h => by have := sBr_len (b := .cs) (a := addr) (args := args) h; simp [allowedArgs, this])

theorem info_brcc (b : Bool) : info b (.br .cc) = some (1, 0xf000) := by cases b <;> decide

theorem num_brcc : lookupOp (.br .cc) Gen.brNum = some 1024 := by decide

theorem pack_brcc : ∀ f, f < 128 →
    packBr 0xf000 0 1024 f = word (if true then pat!"1111 01kk kkkk ksss" else pat!"1111 00kk kkkk ksss") [(fld!"s", 0), (fld!"k", f)] := by
  have h := allIn1 (fun (f : Nat) => decide (packBr 0xf000 0 1024 f = word (if true then pat!"1111 01kk kkkk ksss" else pat!"1111 00kk kkkk ksss") [(fld!"s", 0), (fld!"k", f)])) 7 (by decide +kernel)
  intro f hf; simpa using h f hf

theorem enc_brcc (b : Bool) (args : List AArg) (addr : Nat) (hr : regsOk args) :
    mWords b (.br .cc) args addr = sWords b (.br .cc) args addr := by
  unfold mWords sWords
  rw [info_brcc b]
  show (if !(allowedArgs (.br .cc)).contains args.length then none else wordsOf (eBr 0xf000 addr (lookupOp (.br .cc) Gen.brNum) args)) = _
  rw [num_brcc]
  exact with_arity _ _ _ _ _ (fam_br 0xf000 addr .cc true 0 1024 rfl pack_brcc args hr) (fun h => by have := sBr_len (b := .cc) (a := addr) (args := args) h; simp [allowedArgs, this])

theorem info_brlo (b : Bool) : info b (.br .lo) = some (1, 0xf000) := by cases b <;> decide

theorem num_brlo : lookupOp (.br .lo) Gen.brNum = some 0 := by decide

theorem pack_brlo : ∀ f, f < 128 →
    packBr 0xf000 0 0 f = word (if false then pat!"1111 01kk kkkk ksss" else pat!"1111 00kk kkkk ksss") [(fld!"s", 0), (fld!"k", f)] := by
  have h := allIn1 (fun (f : Nat) => decide (packBr 0xf000 0 0 f = word (if false then pat!"1111 01kk kkkk ksss" else pat!"1111 00kk kkkk ksss") [(fld!"s", 0), (fld!"k", f)])) 7 (by decide +kernel)
  intro f hf; simpa using h f hf

theorem enc_brlo (b : Bool) (args : List AArg) (addr : Nat) (hr : regsOk args) :
    mWords b (.br .lo) args addr = sWords b (.br .lo) args addr := by
  unfold mWords sWords
  rw [info_brlo b]
  show (if !(allowedArgs (.br .lo)).contains args.length then none else wordsOf (eBr 0xf000 addr (lookupOp (.br .lo) Gen.brNum) args)) = _
  rw [num_brlo]
  exact with_arity _ _ _ _ _ (fam_br 0xf000 addr .lo false 0 0 rfl pack_brlo args hr) (fun h => by have := sBr_len (b := .lo) (a := addr) (args := args) h; simp [allowedArgs, this])

theorem info_brsh (b : Bool) : info b (.br .sh) = some (1, 0xf000) := by cases b <;> decide

theorem num_brsh : lookupOp (.br .sh) Gen.brNum = some 1024 := by decide

theorem pack_brsh : ∀ f, f < 128 →
    packBr 0xf000 0 1024 f = word (if true then pat!"1111 01kk kkkk ksss" else pat!"1111 00kk kkkk ksss") [(fld!"s", 0), (fld!"k", f)] := by
  have h := allIn1 (fun (f : Nat) => decide (packBr 0xf000 0 1024 f = word (if true then pat!"1111 01kk kkkk ksss" else pat!"1111 00kk kkkk ksss") [(fld!"s", 0), (fld!"k", f)])) 7 (by decide +kernel)
  intro f hf; simpa using h f hf

theorem enc_brsh (b : Bool) (args : List AArg) (addr : Nat) (hr : regsOk args) :
    mWords b (.br .sh) args addr = sWords b (.br .sh) args addr := by
  unfold mWords sWords
  rw [info_brsh b]
  show (if !(allowedArgs (.br .sh)).contains args.length then none else wordsOf (eBr 0xf000 addr (lookupOp (.br .sh) Gen.brNum) args)) = _
  rw [num_brsh]
  exact with_arity _ _ _ _ _ (fam_br 0xf000 addr .sh true 0 1024 rfl pack_brsh args hr) (fun h => by have := sBr_len (b := .sh) (a := addr) (args := args) h; simp [allowedArgs, this])

theorem info_brmi (b : Bool) : info b (.br .mi) = some (1, 0xf000) := by cases b <;> decide

theorem num_brmi : lookupOp (.br .mi) Gen.brNum = some 2 := by decide

theorem pack_brmi : ∀ f, f < 128 →
    packBr 0xf000 0 2 f = word (if false then pat!"1111 01kk kkkk ksss" else pat!"1111 00kk kkkk ksss") [(fld!"s", 2), (fld!"k", f)] := by
  have h := allIn1 (fun (f : Nat) => decide (packBr 0xf000 0 2 f = word (if false then pat!"1111 01kk kkkk ksss" else pat!"1111 00kk kkkk ksss") [(fld!"s", 2), (fld!"k", f)])) 7 (by decide +kernel)
  intro f hf; simpa using h f hf

theorem enc_brmi (b : Bool) (args : List AArg) (addr : Nat) (hr : regsOk args) :
    mWords b (.br .mi) args addr = sWords b (.br .mi) args addr := by
  unfold mWords sWords
  rw [info_brmi b]
  show (if !(allowedArgs (.br .mi)).contains args.length then none else wordsOf (eBr 0xf000 addr (lookupOp (.br .mi) Gen.brNum) args)) = _
  rw [num_brmi]
  exact with_arity _ _ _ _ _ (fam_br 0xf000 addr .mi false 2 2 rfl pack_brmi args hr) (fun h => by have := sBr_len (b := .mi) (a := addr) (args := args) h; simp [allowedArgs, this])

theorem info_brpl (b : Bool) : info b (.br .pl) = some (1, 0xf000) := by cases b <;> decide

theorem num_brpl : lookupOp (.br .pl) Gen.brNum = some 1026 := by decide

theorem pack_brpl : ∀ f, f < 128 →
    packBr 0xf000 0 1026 f = word (if true then pat!"1111 01kk kkkk ksss" else pat!"1111 00kk kkkk ksss") [(fld!"s", 2), (fld!"k", f)] := by
  have h := allIn1 (fun (f : Nat) => decide (packBr 0xf000 0 1026 f = word (if true then pat!"1111 01kk kkkk ksss" else pat!"1111 00kk kkkk ksss") [(fld!"s", 2), (fld!"k", f)])) 7 (by decide +kernel)
  intro f hf; simpa using h f hf

theorem enc_brpl (b : Bool) (args : List AArg) (addr : Nat) (hr : regsOk args) :
    mWords b (.br .pl) args addr = sWords b (.br .pl) args addr := by
  unfold mWords sWords
  rw [info_brpl b]
  show (if !(allowedArgs (.br .pl)).contains args.length then none else wordsOf (eBr 0xf000 addr (lookupOp (.br .pl) Gen.brNum) args)) = _
  rw [num_brpl]
  exact with_arity _ _ _ _ _ (fam_br 0xf000 addr .pl true 2 1026 rfl pack_brpl args hr) (fun h => by have := sBr_len (b := .pl) (a := addr) (args := args) h; simp [allowedArgs, this])

theorem info_brlt (b : Bool) : info b (.br .lt) = some (1, 0xf000) := by cases b <;> decide

theorem num_brlt : lookupOp (.br .lt) Gen.brNum = some 4 := by decide

theorem pack_brlt : ∀ f, f < 128 →
    packBr 0xf000 0 4 f = word (if false then pat!"1111 01kk kkkk ksss" else pat!"1111 00kk kkkk ksss") [(fld!"s", 4), (fld!"k", f)] := by
  have h := allIn1 (fun (f : Nat) => decide (packBr 0xf000 0 4 f = word (if false then pat!"1111 01kk kkkk ksss" else pat!"1111 00kk kkkk ksss") [(fld!"s", 4), (fld!"k", f)])) 7 (by decide +kernel)
  intro f hf; simpa using h f hf

theorem enc_brlt (b : Bool) (args : List AArg) (addr : Nat) (hr : regsOk args) :
    mWords b (.br .lt) args addr = sWords b (.br .lt) args addr := by
  unfold mWords sWords
  rw [info_brlt b]
  show (if !(allowedArgs (.br .lt)).contains args.length then none else wordsOf (eBr 0xf000 addr (lookupOp (.br .lt) Gen.brNum) args)) = _
  rw [num_brlt]
  exact with_arity _ _ _ _ _ (fam_br 0xf000 addr .lt false 4 4 rfl pack_brlt args hr) (fun h => by have := sBr_len (b := .lt) (a := addr) (args := args) h; simp [allowedArgs, this])

theorem info_brge (b : Bool) : info b (.br .ge) = some (1, 0xf000) := by cases b <;> decide

theorem num_brge : lookupOp (.br .ge) Gen.brNum = some 1028 := by decide

theorem pack_brge : ∀ f, f < 128 →
    packBr 0xf000 0 1028 f = word (if true then pat!"1111 01kk kkkk ksss" else pat!"1111 00kk kkkk ksss") [(fld!"s", 4), (fld!"k", f)] := by
  have h := allIn1 (fun (f : Nat) => decide (packBr 0xf000 0 1028 f = word (if true then pat!"1111 01kk kkkk ksss" else pat!"1111 00kk kkkk ksss") [(fld!"s", 4), (fld!"k", f)])) 7 (by decide +kernel)
  intro f hf; simpa using h f hf

theorem enc_brge (b : Bool) (args : List AArg) (addr : Nat) (hr : regsOk args) :
    mWords b (.br .ge) args addr = sWords b (.br .ge) args addr := by
  unfold mWords sWords
  rw [info_brge b]
  show (if !(allowedArgs (.br .ge)).contains args.length then none else wordsOf (eBr 0xf000 addr (lookupOp (.br .ge) Gen.brNum) args)) = _
  rw [num_brge]
  exact with_arity _ _ _ _ _ (fam_br 0xf000 addr .ge true 4 1028 rfl pack_brge args hr) (fun h => by have := sBr_len (b := .ge) (a := addr) (args := args) h; simp [allowedArgs, this])

theorem info_brhs (b : Bool) : info b (.br .hs) = some (1, 0xf000) := by cases b <;> decide

theorem num_brhs : lookupOp (.br .hs) Gen.brNum = some 5 := by decide

theorem pack_brhs : ∀ f, f < 128 →
    packBr 0xf000 0 5 f = word (if false then pat!"1111 01kk kkkk ksss" else pat!"1111 00kk kkkk ksss") [(fld!"s", 5), (fld!"k", f)] := by
  have h := allIn1 (fun (f : Nat) => decide (packBr 0xf000 0 5 f = word (if false then pat!"1111 01kk kkkk ksss" else pat!"1111 00kk kkkk ksss") [(fld!"s", 5), (fld!"k", f)])) 7 (by decide +kernel)
  intro f hf; simpa using h f hf

theorem enc_brhs (b : Bool) (args : List AArg) (addr : Nat) (hr : regsOk args) :
    mWords b (.br .hs) args addr = sWords b (.br .hs) args addr := by
  unfold mWords sWords
  rw [info_brhs b]
  show (if !(allowedArgs (.br .hs)).contains args.length then none else wordsOf (eBr 0xf000 addr (lookupOp (.br .hs) Gen.brNum) args)) = _
  rw [num_brhs]
  exact with_arity _ _ _ _ _ (fam_br 0xf000 addr .hs false 5 5 rfl pack_brhs args hr) (fun h => by have := sBr_len (b := .hs) (a := addr) (args := args) h; simp [allowedArgs, this])

theorem info_brhc (b : Bool) : info b (.br .hc) = some (1, 0xf000) := by cases b <;> decide

theorem num_brhc : lookupOp (.br .hc) Gen.brNum = some 1029 := by decide

theorem pack_brhc : ∀ f, f < 128 →
    packBr 0xf000 0 1029 f = word (if true then pat!"1111 01kk kkkk ksss" else pat!"1111 00kk kkkk ksss") [(fld!"s", 5), (fld!"k", f)] := by
  have h := allIn1 (fun (f : Nat) => decide (packBr 0xf000 0 1029 f = word (if true then pat!"1111 01kk kkkk ksss" else pat!"1111 00kk kkkk ksss") [(fld!"s", 5), (fld!"k", f)])) 7 (by decide +kernel)
  intro f hf; simpa using h f hf

theorem enc_brhc (b : Bool) (args : List AArg) (addr : Nat) (hr : regsOk args) :
    mWords b (.br .hc) args addr = sWords b (.br .hc) args addr := by
  unfold mWords sWords
  rw [info_brhc b]
  show (if !(allowedArgs (.br .hc)).contains args.length then none else wordsOf (eBr 0xf000 addr (lookupOp (.br .hc) Gen.brNum) args)) = _
  rw [num_brhc]
  exact with_arity _ _ _ _ _ (fam_br 0xf000 addr .hc true 5 1029 rfl pack_brhc args hr) (fun h => by have := sBr_len (b := .hc) (a := addr) (args := args) h; simp [allowedArgs, this])

theorem info_brts (b : Bool) : info b (.br .ts) = some (1, 0xf000) := by cases b <;> decide

theorem num_brts : lookupOp (.br .ts) Gen.brNum = some 6 := by decide

theorem pack_brts : ∀ f, f < 128 →
    packBr 0xf000 0 6 f = word (if false then pat!"1111 01kk kkkk ksss" else pat!"1111 00kk kkkk ksss") [(fld!"s", 6), (fld!"k", f)] := by
  have h := allIn1 (fun (f : Nat) => decide (packBr 0xf000 0 6 f = word (if false then pat!"1111 01kk kkkk ksss" else pat!"1111 00kk kkkk ksss") [(fld!"s", 6), (fld!"k", f)])) 7 (by decide +kernel)
  intro f hf; simpa using h f hf

theorem enc_brts (b : Bool) (args : List AArg) (addr : Nat) (hr : regsOk args) :
    mWords b (.br .ts) args addr = sWords b (.br .ts) args addr := by
  unfold mWords sWords
  rw [info_brts b]
  show (if !(allowedArgs (.br .ts)).contains args.length then none else wordsOf (eBr 0xf000 addr (lookupOp (.br .ts) Gen.brNum) args)) = _
  rw [num_brts]
  exact with_arity _ _ _ _ _ (fam_br 0xf000 addr .ts false 6 6 rfl pack_brts args hr) (fun h => by have := sBr_len (b := .ts) (a := addr) (args := args) h; simp [allowedArgs, this])

theorem info_brtc (b : Bool) : info b (.br .tc) = some (1, 0xf000) := by cases b <;> decide

theorem num_brtc : lookupOp (.br .tc) Gen.brNum = some 1030 := by decide

theorem pack_brtc : ∀ f, f < 128 →
    packBr 0xf000 0 1030 f = word (if true then pat!"1111 01kk kkkk ksss" else pat!"1111 00kk kkkk ksss") [(fld!"s", 6), (fld!"k", f)] := by
  have h := allIn1 (fun (f : Nat) => decide (packBr 0xf000 0 1030 f = word (if true then pat!"1111 01kk kkkk ksss" else pat!"1111 00kk kkkk ksss") [(fld!"s", 6), (fld!"k", f)])) 7 (by decide +kernel)
  intro f hf; simpa using h f hf

theorem enc_brtc (b : Bool) (args : List AArg) (addr : Nat) (hr : regsOk args) :
    mWords b (.br .tc) args addr = sWords b (.br .tc) args addr := by
  unfold mWords sWords
  rw [info_brtc b]
  show (if !(allowedArgs (.br .tc)).contains args.length then none else wordsOf (eBr 0xf000 addr (lookupOp (.br .tc) Gen.brNum) args)) = _
  rw [num_brtc]
  exact with_arity _ _ _ _ _ (fam_br 0xf000 addr .tc true 6 1030 rfl pack_brtc args hr) (fun h => by have := sBr_len (b := .tc) (a := addr) (args := args) h; simp [allowedArgs, this])

theorem info_brvs (b : Bool) : info b (.br .vs) = some (1, 0xf000) := by cases b <;> decide

theorem num_brvs : lookupOp (.br .vs) Gen.brNum = some 3 := by decide

theorem pack_brvs : ∀ f, f < 128 →
    packBr 0xf000 0 3 f = word (if false then pat!"1111 01kk kkkk ksss" else pat!"1111 00kk kkkk ksss") [(fld!"s", 3), (fld!"k", f)] := by
  have h := allIn1 (fun (f : Nat) => decide (packBr 0xf000 0 3 f = word (if false then pat!"1111 01kk kkkk ksss" else pat!"1111 00kk kkkk ksss") [(fld!"s", 3), (fld!"k", f)])) 7 (by decide +kernel)
  intro f hf; simpa using h f hf

theorem enc_brvs (b : Bool) (args : List AArg) (addr : Nat) (hr : regsOk args) :
    mWords b (.br .vs) args addr = sWords b (.br .vs) args addr := by
  unfold mWords sWords
  rw [info_brvs b]
  show (if !(allowedArgs (.br .vs)).contains args.length then none else wordsOf (eBr 0xf000 addr (lookupOp (.br .vs) Gen.brNum) args)) = _
  rw [num_brvs]
  exact with_arity _ _ _ _ _ (fam_br 0xf000 addr .vs false 3 3 rfl pack_brvs args hr) (fun h => by have := sBr_len (b := .vs) (a := addr) (args := args) h; simp [allowedArgs, this])

theorem info_brvc (b : Bool) : info b (.br .vc) = some (1, 0xf000) := by cases b <;> decide

theorem num_brvc : lookupOp (.br .vc) Gen.brNum = some 1027 := by decide

theorem pack_brvc : ∀ f, f < 128 →
    packBr 0xf000 0 1027 f = word (if true then pat!"1111 01kk kkkk ksss" else pat!"1111 00kk kkkk ksss") [(fld!"s", 3), (fld!"k", f)] := by
  have h := allIn1 (fun (f : Nat) => decide (packBr 0xf000 0 1027 f = word (if true then pat!"1111 01kk kkkk ksss" else pat!"1111 00kk kkkk ksss") [(fld!"s", 3), (fld!"k", f)])) 7 (by decide +kernel)
  intro f hf; simpa using h f hf

theorem enc_brvc (b : Bool) (args : List AArg) (addr : Nat) (hr : regsOk args) :
    mWords b (.br .vc) args addr = sWords b (.br .vc) args addr := by
  unfold mWords sWords
  rw [info_brvc b]
  show (if !(allowedArgs (.br .vc)).contains args.length then none else wordsOf (eBr 0xf000 addr (lookupOp (.br .vc) Gen.brNum) args)) = _
  rw [num_brvc]
  exact with_arity _ _ _ _ _ (fam_br 0xf000 addr .vc true 3 1027 rfl pack_brvc args hr) (fun h => by have := sBr_len (b := .vc) (a := addr) (args := args) h; simp [allowedArgs, this])

theorem info_brie (b : Bool) : info b (.br .ie) = some (1, 0xf000) := by cases b <;> decide

theorem num_brie : lookupOp (.br .ie) Gen.brNum = some 7 := by decide

theorem pack_brie : ∀ f, f < 128 →
    packBr 0xf000 0 7 f = word (if false then pat!"1111 01kk kkkk ksss" else pat!"1111 00kk kkkk ksss") [(fld!"s", 7), (fld!"k", f)] := by
  have h := allIn1 (fun (f : Nat) => decide (packBr 0xf000 0 7 f = word (if false then pat!"1111 01kk kkkk ksss" else pat!"1111 00kk kkkk ksss") [(fld!"s", 7), (fld!"k", f)])) 7 (by decide +kernel)
  intro f hf; simpa using h f hf

theorem enc_brie (b : Bool) (args : List AArg) (addr : Nat) (hr : regsOk args) :
    mWords b (.br .ie) args addr = sWords b (.br .ie) args addr := by
  unfold mWords sWords
  rw [info_brie b]
  show (if !(allowedArgs (.br .ie)).contains args.length then none else wordsOf (eBr 0xf000 addr (lookupOp (.br .ie) Gen.brNum) args)) = _
  rw [num_brie]
  exact with_arity _ _ _ _ _ (fam_br 0xf000 addr .ie false 7 7 rfl pack_brie args hr) (fun h => by have := sBr_len (b := .ie) (a := addr) (args := args) h; simp [allowedArgs, this])

theorem info_brid (b : Bool) : info b (.br .id) = some (1, 0xf000) := by cases b <;> decide

theorem num_brid : lookupOp (.br .id) Gen.brNum = some 1031 := by decide

theorem pack_brid : ∀ f, f < 128 →
    packBr 0xf000 0 1031 f = word (if true then pat!"1111 01kk kkkk ksss" else pat!"1111 00kk kkkk ksss") [(fld!"s", 7), (fld!"k", f)] := by
  have h := allIn1 (fun (f : Nat) => decide (packBr 0xf000 0 1031 f = word (if true then pat!"1111 01kk kkkk ksss" else pat!"1111 00kk kkkk ksss") [(fld!"s", 7), (fld!"k", f)])) 7 (by decide +kernel)
  intro f hf; simpa using h f hf

theorem enc_brid (b : Bool) (args : List AArg) (addr : Nat) (hr : regsOk args) :
    mWords b (.br .id) args addr = sWords b (.br .id) args addr := by
  unfold mWords sWords
  rw [info_brid b]
  show (if !(allowedArgs (.br .id)).contains args.length then none else wordsOf (eBr 0xf000 addr (lookupOp (.br .id) Gen.brNum) args)) = _
  rw [num_brid]
  exact with_arity _ _ _ _ _ (fam_br 0xf000 addr .id true 7 1031 rfl pack_brid args hr) (fun h => by have := sBr_len (b := .id) (a := addr) (args := args) h; simp [allowedArgs, this])

theorem info_brbs (b : Bool) : info b (.br .bs) = some (1, 0xf000) := by cases b <;> decide

theorem num_brbs : lookupOp (.br .bs) Gen.brNum = some 0 := by decide

theorem pack_brbs : ∀ s f, s < 8 → f < 128 →
    packBr 0xf000 s 0 f = word (if false then pat!"1111 01kk kkkk ksss" else pat!"1111 00kk kkkk ksss") [(fld!"s", s), (fld!"k", f)] := by
  have h := allIn2 (fun (s f : Nat) => decide (packBr 0xf000 s 0 f = word (if false then pat!"1111 01kk kkkk ksss" else pat!"1111 00kk kkkk ksss") [(fld!"s", s), (fld!"k", f)])) 3 7 (by decide +kernel)
  intro s f hs hf; simpa using h s f hs hf

theorem enc_brbs (b : Bool) (args : List AArg) (addr : Nat) (hr : regsOk args) :
    mWords b (.br .bs) args addr = sWords b (.br .bs) args addr := by
  unfold mWords sWords
  rw [info_brbs b]
  show (if !(allowedArgs (.br .bs)).contains args.length then none else wordsOf (eBrb 0xf000 addr (lookupOp (.br .bs) Gen.brNum) args)) = _
  rw [num_brbs]
  exact with_arity _ _ _ _ _ (fam_brb 0xf000 addr false 0 pack_brbs args hr) (fun h => by have := sBrb_len (c := false) (a := addr) (args := args) h; simp [allowedArgs, this])

theorem info_brbc (b : Bool) : info b (.br .bc) = some (1, 0xf000) := by cases b <;> decide

theorem num_brbc : lookupOp (.br .bc) Gen.brNum = some 1024 := by decide

theorem pack_brbc : ∀ s f, s < 8 → f < 128 →
    packBr 0xf000 s 1024 f = word (if true then pat!"1111 01kk kkkk ksss" else pat!"1111 00kk kkkk ksss") [(fld!"s", s), (fld!"k", f)] := by
  have h := allIn2 (fun (s f : Nat) => decide (packBr 0xf000 s 1024 f = word (if true then pat!"1111 01kk kkkk ksss" else pat!"1111 00kk kkkk ksss") [(fld!"s", s), (fld!"k", f)])) 3 7 (by decide +kernel)
  intro s f hs hf; simpa using h s f hs hf

theorem enc_brbc (b : Bool) (args : List AArg) (addr : Nat) (hr : regsOk args) :
    mWords b (.br .bc) args addr = sWords b (.br .bc) args addr := by
  unfold mWords sWords
  rw [info_brbc b]
  show (if !(allowedArgs (.br .bc)).contains args.length then none else wordsOf (eBrb 0xf000 addr (lookupOp (.br .bc) Gen.brNum) args)) = _
  rw [num_brbc]
  exact with_arity _ _ _ _ _ (fam_brb 0xf000 addr true 1024 pack_brbc args hr) (fun h => by have := sBrb_len (c := true) (a := addr) (args := args) h; simp [allowedArgs, this])

theorem info_lds_classic : info false .lds = some (2, 0x9000) := by decide

theorem info_lds_reduced : info true .lds = some (1, 0xa000) := by decide

theorem pack_lds32 : ∀ d, d < 32 → packOne 0x9000 d = word (pat!"1001 000d dddd 0000") [(fld!"d", d)] := by
  have h := allIn1 (fun (d : Nat) => decide (packOne 0x9000 d = word (pat!"1001 000d dddd 0000") [(fld!"d", d)])) 5 (by decide +kernel)
  intro d hd; simpa using h d hd

theorem pack_lds16 : ∀ d a, 16 ≤ d → d < 32 → 0x40 ≤ a → a ≤ 0xbf →
    packLds16 0xa000 d a = word (pat!"1010 0kkk dddd kkkk") [(fld!"d", d - 16), (fld!"k", (a / 16 % 4) * 32 + (a / 64 % 2) * 16 + a % 16)] := by
  have h := allIn2 (fun (d a : Nat) => decide (16 ≤ d → 0x40 ≤ a → a ≤ 0xbf → packLds16 0xa000 d a = word (pat!"1010 0kkk dddd kkkk") [(fld!"d", d - 16), (fld!"k", (a / 16 % 4) * 32 + (a / 64 % 2) * 16 + a % 16)])) 5 8 (by decide +kernel)
  intro d a h1 hd h2 h3; have hx := h d a hd (by omega); simp only [decide_eq_true_eq] at hx; exact hx h1 h2 h3

theorem enc_lds (b : Bool) (args : List AArg) (addr : Nat) (hr : regsOk args) :
    mWords b .lds args addr = sWords b .lds args addr := by
  unfold mWords sWords
  cases b
  · rw [info_lds_classic]
    exact with_arity _ _ _ _ _ (fam_lds false 0x9000 (fun _ => pack_lds32) (fun h => by cases h) args hr) (fun h => by have := sLds_len h; simp [allowedArgs, this])
  · rw [info_lds_reduced]
    exact with_arity _ _ _ _ _ (fam_lds true 0xa000 (fun h => by cases h) (fun _ => pack_lds16) args hr) (fun h => by have := sLds_len h; simp [allowedArgs, this])

theorem info_sts_classic : info false .sts = some (2, 0x9200) := by decide

theorem info_sts_reduced : info true .sts = some (1, 0xa800) := by decide

theorem pack_sts32 : ∀ d, d < 32 → packOne 0x9200 d = word (pat!"1001 001d dddd 0000") [(fld!"d", d)] := by
  have h := allIn1 (fun (d : Nat) => decide (packOne 0x9200 d = word (pat!"1001 001d dddd 0000") [(fld!"d", d)])) 5 (by decide +kernel)
  intro d hd; simpa using h d hd

theorem pack_sts16 : ∀ d a, 16 ≤ d → d < 32 → 0x40 ≤ a → a ≤ 0xbf →
    packLds16 0xa800 d a = word (pat!"1010 1kkk dddd kkkk") [(fld!"d", d - 16), (fld!"k", (a / 16 % 4) * 32 + (a / 64 % 2) * 16 + a % 16)] := by
  have h := allIn2 (fun (d a : Nat) => decide (16 ≤ d → 0x40 ≤ a → a ≤ 0xbf → packLds16 0xa800 d a = word (pat!"1010 1kkk dddd kkkk") [(fld!"d", d - 16), (fld!"k", (a / 16 % 4) * 32 + (a / 64 % 2) * 16 + a % 16)])) 5 8 (by decide +kernel)
  intro d a h1 hd h2 h3; have hx := h d a hd (by omega); simp only [decide_eq_true_eq] at hx; exact hx h1 h2 h3

theorem enc_sts (b : Bool) (args : List AArg) (addr : Nat) (hr : regsOk args) :
    mWords b .sts args addr = sWords b .sts args addr := by
  unfold mWords sWords
  cases b
  · rw [info_sts_classic]
    exact with_arity _ _ _ _ _ (fam_sts false 0x9200 (fun _ => pack_sts32) (fun h => by cases h) args hr) (fun h => by have := sSts_len h; simp [allowedArgs, this])
  · rw [info_sts_reduced]
    exact with_arity _ _ _ _ _ (fam_sts true 0xa800 (fun h => by cases h) (fun _ => pack_sts16) args hr) (fun h => by have := sSts_len h; simp [allowedArgs, this])

theorem idx_ld : idxPackOk 0x8000 false := idxPackOk_of_check 0x8000 false (by decide +kernel)

theorem idx_st : idxPackOk 0x8200 true := idxPackOk_of_check 0x8200 true (by decide +kernel)

theorem info_ld (b : Bool) : info b .ld = some (1, 0x8000) := by cases b <;> decide

theorem enc_ld (b : Bool) (args : List AArg) (addr : Nat) (hr : regsOk args) :
    mWords b .ld args addr = sWords b .ld args addr := by
  unfold mWords sWords
  rw [info_ld b]
  exact with_arity _ _ _ _ _ (fam_ld 0x8000 idx_ld args hr) (fun h => by have := sLd_len h; simp [allowedArgs, this])

theorem info_ldd (b : Bool) : info b .ldd = some (1, 0x8000) := by cases b <;> decide

theorem enc_ldd (b : Bool) (args : List AArg) (addr : Nat) (hr : regsOk args) :
    mWords b .ldd args addr = sWords b .ldd args addr := by
  unfold mWords sWords
  rw [info_ldd b]
  exact with_arity _ _ _ _ _ (fam_ld 0x8000 idx_ld args hr) (fun h => by have := sLd_len h; simp [allowedArgs, this])

theorem info_st (b : Bool) : info b .st = some (1, 0x8200) := by cases b <;> decide

theorem enc_st (b : Bool) (args : List AArg) (addr : Nat) (hr : regsOk args) :
    mWords b .st args addr = sWords b .st args addr := by
  unfold mWords sWords
  rw [info_st b]
  exact with_arity _ _ _ _ _ (fam_st 0x8200 idx_st args hr) (fun h => by have := sSt_len h; simp [allowedArgs, this])

theorem info_std (b : Bool) : info b .std = some (1, 0x8200) := by cases b <;> decide

theorem enc_std (b : Bool) (args : List AArg) (addr : Nat) (hr : regsOk args) :
    mWords b .std args addr = sWords b .std args addr := by
  unfold mWords sWords
  rw [info_std b]
  exact with_arity _ _ _ _ _ (fam_st 0x8200 idx_st args hr) (fun h => by have := sSt_len h; simp [allowedArgs, this])

end Avra.Props.Enc
