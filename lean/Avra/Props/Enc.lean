/-
  The encoder model agrees with the independent ISA spec on every mnemonic, every operand list
  (any count, any kinds) and every i64 operand value, on both cores.  (Dispatch text produced once
  by tools/mk_enc_props.py, maintained as source.)
-/
import Avra.Props.EncOps1
import Avra.Props.EncOps2
import Avra.Props.EncOps3
import Avra.Props.EncOps4
namespace Avra.Props.Enc
open Avra Avra.Model Avra.Isa Avra.Lemmas

/-- model words = ISA encoding of what the legality spec says the operands denote, or both
    reject — for every standard mnemonic, both cores, all resolved operand lists, all addresses -/
theorem model_eq_spec (b : Bool) (op : Op) (args : List AArg) (addr : Nat)
    (hstd : ∀ n, op ≠ .custom n) (hr : regsOk args) :
    mWords b op args addr = sWords b op args addr := by
  cases op with
  | add => exact enc_add b args addr hr
  | adc => exact enc_adc b args addr hr
  | sub => exact enc_sub b args addr hr
  | sbc => exact enc_sbc b args addr hr
  | and => exact enc_and b args addr hr
  | or => exact enc_or b args addr hr
  | eor => exact enc_eor b args addr hr
  | cpse => exact enc_cpse b args addr hr
  | cp => exact enc_cp b args addr hr
  | cpc => exact enc_cpc b args addr hr
  | mov => exact enc_mov b args addr hr
  | mul => exact enc_mul b args addr hr
  | tst => exact enc_tst b args addr hr
  | clr => exact enc_clr b args addr hr
  | lsl => exact enc_lsl b args addr hr
  | rol => exact enc_rol b args addr hr
  | com => exact enc_com b args addr hr
  | neg => exact enc_neg b args addr hr
  | inc => exact enc_inc b args addr hr
  | dec => exact enc_dec b args addr hr
  | push => exact enc_push b args addr hr
  | pop => exact enc_pop b args addr hr
  | lsr => exact enc_lsr b args addr hr
  | ror => exact enc_ror b args addr hr
  | asr => exact enc_asr b args addr hr
  | swap => exact enc_swap b args addr hr
  | subi => exact enc_subi b args addr hr
  | sbci => exact enc_sbci b args addr hr
  | andi => exact enc_andi b args addr hr
  | ori => exact enc_ori b args addr hr
  | sbr => exact enc_sbr b args addr hr
  | cbr => exact enc_cbr b args addr hr
  | cpi => exact enc_cpi b args addr hr
  | ldi => exact enc_ldi b args addr hr
  | ser => exact enc_ser b args addr hr
  | adiw => exact enc_adiw b args addr hr
  | sbiw => exact enc_sbiw b args addr hr
  | muls => exact enc_muls b args addr hr
  | mulsu => exact enc_mulsu b args addr hr
  | fmul => exact enc_fmul b args addr hr
  | fmuls => exact enc_fmuls b args addr hr
  | fmulsu => exact enc_fmulsu b args addr hr
  | movw => exact enc_movw b args addr hr
  | rjmp => exact enc_rjmp b args addr hr
  | rcall => exact enc_rcall b args addr hr
  | jmp => exact enc_jmp b args addr hr
  | call => exact enc_call b args addr hr
  | lds => exact enc_lds b args addr hr
  | sts => exact enc_sts b args addr hr
  | ld => exact enc_ld b args addr hr
  | ldd => exact enc_ldd b args addr hr
  | st => exact enc_st b args addr hr
  | std => exact enc_std b args addr hr
  | lpm => exact enc_lpm b args addr hr
  | elpm => exact enc_elpm b args addr hr
  | «in» => exact enc_in b args addr hr
  | out => exact enc_out b args addr hr
  | sbrc => exact enc_sbrc b args addr hr
  | sbrs => exact enc_sbrs b args addr hr
  | bst => exact enc_bst b args addr hr
  | bld => exact enc_bld b args addr hr
  | sbi => exact enc_sbi b args addr hr
  | cbi => exact enc_cbi b args addr hr
  | sbis => exact enc_sbis b args addr hr
  | sbic => exact enc_sbic b args addr hr
  | bset => exact enc_bset b args addr hr
  | bclr => exact enc_bclr b args addr hr
  | ijmp => exact enc_ijmp b args addr hr
  | eijmp => exact enc_eijmp b args addr hr
  | icall => exact enc_icall b args addr hr
  | eicall => exact enc_eicall b args addr hr
  | ret => exact enc_ret b args addr hr
  | reti => exact enc_reti b args addr hr
  | spm => exact enc_spm b args addr hr
  | «break» => exact enc_break b args addr hr
  | nop => exact enc_nop b args addr hr
  | sleep => exact enc_sleep b args addr hr
  | wdr => exact enc_wdr b args addr hr
  | br t => cases t with
    | eq => exact enc_breq b args addr hr
    | ne => exact enc_brne b args addr hr
    | cs => exact enc_brcs b args addr hr
    | cc => exact enc_brcc b args addr hr
    | lo => exact enc_brlo b args addr hr
    | sh => exact enc_brsh b args addr hr
    | mi => exact enc_brmi b args addr hr
    | pl => exact enc_brpl b args addr hr
    | lt => exact enc_brlt b args addr hr
    | ge => exact enc_brge b args addr hr
    | hs => exact enc_brhs b args addr hr
    | hc => exact enc_brhc b args addr hr
    | ts => exact enc_brts b args addr hr
    | tc => exact enc_brtc b args addr hr
    | vs => exact enc_brvs b args addr hr
    | vc => exact enc_brvc b args addr hr
    | ie => exact enc_brie b args addr hr
    | id => exact enc_brid b args addr hr
    | bs => exact enc_brbs b args addr hr
    | bc => exact enc_brbc b args addr hr
  | se f => cases f with
    | c => exact enc_sec b args addr hr
    | z => exact enc_sez b args addr hr
    | n => exact enc_sen b args addr hr
    | v => exact enc_sev b args addr hr
    | s => exact enc_ses b args addr hr
    | h => exact enc_seh b args addr hr
    | t => exact enc_set b args addr hr
    | i => exact enc_sei b args addr hr
  | cl f => cases f with
    | c => exact enc_clc b args addr hr
    | z => exact enc_clz b args addr hr
    | n => exact enc_cln b args addr hr
    | v => exact enc_clv b args addr hr
    | s => exact enc_cls b args addr hr
    | h => exact enc_clh b args addr hr
    | t => exact enc_clt b args addr hr
    | i => exact enc_cli b args addr hr
  | custom n => exact absurd rfl (hstd n)

end Avra.Props.Enc
