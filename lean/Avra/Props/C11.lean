/-
  C11 — including a file is running the same line loop over its lines from the includer's state;
  files are found where documented.

  Model: `parseFileAt` (parser.rs `parse_file_internal`), the `.include` / `.includepath` / `.exit`
  arms of `directiveParse` (directive.rs), the loop `parseIterWith`; the file system is the
  parameter `Fs` (what exists, what a file contains) — OS behaviour is not modelled further.
-/
import Avra.Lemmas.Iter
import Avra.Lemmas.Paste
namespace Avra.Props.C11
open Avra Avra.Model Avra.Lemmas.Iter Avra.Lemmas.Paste

/-! ### where a file is looked for (independent statement) -/

/-- the documented search list: the path as written, then `dir/path` for every directory of the
    include set in force, in the set's order -/
def candidates (path : Str) (incs : List Str) : List Str :=
  path :: incs.map (fun par => pathPush par path)

/-- the first candidate that exists; the path as written when none does -/
def resolve (fs : Fs) (path : Str) (incs : List Str) : Str :=
  ((candidates path incs).find? fs.exists).getD path

/-- the include set in force INSIDE a file read from `resolved`: the includer's set plus the
    file's own directory -/
def insideSet (resolved : Str) (incs : List Str) : List Str :=
  match pathParent resolved with
  | some p => pathsInsert p incs
  | none => incs

/-- the file's own directory when it had to be added -/
def ownDir (resolved : Str) (incs : List Str) : Option Str :=
  match pathParent resolved with
  | some p => if incs.any (pathEq p) then none else some p
  | none => none

theorem resolvePath_spec (fs : Fs) (path : Str) (incs : List Str) :
    resolvePath fs path incs = resolve fs path incs := by
  unfold resolvePath resolve candidates
  simp only [List.find?_cons]
  cases h : fs.exists path with
  | true => simp
  | false =>
    simp only [Bool.false_eq_true, if_false]
    induction incs with
    | nil => rfl
    | cons a rest ih =>
      simp only [List.find?_cons, List.map_cons]
      cases h2 : fs.exists (pathPush a path) with
      | true => simp
      | false => simpa using ih

/-- **The file step.**  Processing `path` (as written) from the includer's state `st` with the
    includer's include set: the file is read from the first documented candidate that exists; its
    lines then go through THE SAME loop (`parseIterWith`, hence the same `lineStep` /
    `directiveParse`), starting from the includer's state — symbols, `.def`s, macros, segments,
    device, messages — and the state the loop ends in is what the includer continues with, so
    everything defined inside the file is visible afterwards.  A file that cannot be read is an
    error naming the path (as resolved — as written when no candidate exists). -/
theorem file_step (fs : Fs) (d : Nat) (path : Str) (incs : List Str) (st : PState) :
    parseFileAt fs (d + 1) path incs st =
      match fs.read (resolve fs path incs) with
      | none =>
        if fs.isDir (resolve fs path incs) then .error ⟨none, "read-directory"⟩
        else .error ⟨none, "cannot-read-file:" ++ String.ofList (resolve fs path incs)⟩
      | some src =>
        match runFrom (parseFileAt fs d) (resolve fs path incs) (st, insideSet (resolve fs path incs) incs)
            .newLine (numbered (lines src)) with
        | .ok (st', incsFile) => .ok (st', writeBack (ownDir (resolve fs path incs) incs) incsFile incs)
        | .error e => .error e
        | .panic s => .panic s
        | .oof => .oof := by
  conv => lhs; unfold parseFileAt
  dsimp only
  rw [resolvePath_spec]
  cases fs.read (resolve fs path incs) with
  | none => rfl
  | some src =>
    have hl : (numbered (lines src)).length = (lines src).length := by simp [numbered]
    simp only [runFrom, insideSet, ownDir, hl]
    rfl

/-- the `.include` line hands the whole state to the file step and continues, on the next line
    of the including file, with the state and include set that come back -/
theorem include_step (inc : IncludeFn) (cur : Str) (incs : List Str) (st : PState) (path : Str) (ln : Nat) :
    directiveParse inc cur incs st .include (.opList [.s path]) ln =
      match inc path incs st with
      | .ok (st', incs') => .ok (st', incs', .newLine)
      | .error e =>
        -- the nesting limit is an error of THIS line (MAX_INCLUDE_DEPTH, see C16)
        if e.kind = "include-depth" ∧ e.line = none then lineErr ln "include-depth" else .error e
      | .panic s => .panic s
      | .oof => .oof := by
  simp only [directiveParse, List.head?_cons]
  cases inc path incs st <;> rfl

/-- a file found nowhere — not at the path as written and in no directory of the include set —
    fails with an error naming the path as written -/
theorem missing_file_named (fs : Fs) (d : Nat) (path : Str) (incs : List Str) (st : PState)
    (h : ∀ c ∈ candidates path incs, fs.exists c = false) :
    parseFileAt fs (d + 1) path incs st = .error ⟨none, "cannot-read-file:" ++ String.ofList path⟩ := by
  have hr : resolve fs path incs = path := by
    unfold resolve
    have : (candidates path incs).find? fs.exists = none := by
      rw [List.find?_eq_none]; intro c hc; simp [h c hc]
    rw [this]; rfl
  have hex : fs.exists path = false := h path (by simp [candidates])
  have hread : fs.read path = none := by
    unfold Fs.exists Fs.isFile at hex
    unfold Fs.read
    cases hq : fs.real path with
    | none => rfl
    | some q =>
      simp only [hq] at hex ⊢
      cases hl : alookup q fs.files with
      | none => rfl
      | some v => simp [hl] at hex
  have hdir : fs.isDir path = false := by
    unfold Fs.exists at hex
    simp only [Bool.or_eq_false_iff] at hex
    exact hex.2
  rw [file_step, hr, hread]
  simp only [hdir, Bool.false_eq_true, if_false]

/-- a file that exists in some directory of the include set (or as written) is found: the path
    read from exists -/
theorem found_when_present (fs : Fs) (path : Str) (incs : List Str) (c : Str)
    (hc : c ∈ candidates path incs) (hex : fs.exists c = true) :
    fs.exists (resolve fs path incs) = true ∧ resolve fs path incs ∈ candidates path incs := by
  unfold resolve
  cases hf : (candidates path incs).find? fs.exists with
  | none =>
    rw [List.find?_eq_none] at hf
    exact absurd hex (by simpa using hf c hc)
  | some r =>
    have := List.find?_some hf
    exact ⟨by simpa using this, List.mem_of_find?_eq_some hf⟩

/-! ### what the include set contains -/

theorem mem_pathsInsert (p : Str) : ∀ (incs : List Str), ∃ q ∈ pathsInsert p incs, pathEq p q = true
  | [] => ⟨p, by simp [pathsInsert], by simp [pathEq]⟩
  | a :: rest => by
    simp only [pathsInsert]
    by_cases h1 : pathEq p a = true
    · exact ⟨a, by simp [h1], h1⟩
    · by_cases h2 : pathLt p a = true
      · exact ⟨p, by simp [h1, h2], by simp [pathEq]⟩
      · obtain ⟨q, hq, he⟩ := mem_pathsInsert p rest
        exact ⟨q, by simp [h1, h2, hq], he⟩

theorem pathsInsert_keeps (p q : Str) : ∀ (incs : List Str), q ∈ incs → q ∈ pathsInsert p incs
  | [], h => by simp at h
  | a :: rest, h => by
    simp only [pathsInsert]
    by_cases h1 : pathEq p a = true
    · simpa [h1] using h
    · by_cases h2 : pathLt p a = true
      · simp only [h1, h2, if_true, if_false, Bool.false_eq_true]
        exact List.mem_cons_of_mem _ h
      · simp only [h1, h2, if_false, Bool.false_eq_true]
        rcases List.mem_cons.mp h with rfl | h
        · exact List.mem_cons_self
        · exact List.mem_cons_of_mem _ (pathsInsert_keeps p q rest h)

/-- inside a file, the file's own directory is searched (the directory of the including file,
    for the includes that file makes), and every directory the includer searched still is -/
theorem own_directory_searched (resolved par : Str) (incs : List Str) (h : pathParent resolved = some par) :
    (∃ q ∈ insideSet resolved incs, pathEq par q = true) ∧ ∀ q ∈ incs, q ∈ insideSet resolved incs := by
  unfold insideSet; rw [h]
  exact ⟨mem_pathsInsert par incs, fun q hq => pathsInsert_keeps par q incs hq⟩

theorem foldl_insert_mem (p : Str) : ∀ (dirs acc : List Str), ((∃ q ∈ acc, pathEq p q = true) ∨ p ∈ dirs) →
    ∃ q ∈ dirs.foldl (fun acc p => pathsInsert p acc) acc, pathEq p q = true
  | [], acc, h => by
    rcases h with h | h
    · exact h
    · simp at h
  | a :: rest, acc, h => by
    simp only [List.foldl_cons]
    apply foldl_insert_mem p rest (pathsInsert a acc)
    rcases h with ⟨q, hq, he⟩ | h
    · exact Or.inl ⟨q, pathsInsert_keeps a q acc hq, he⟩
    · rcases List.mem_cons.mp h with rfl | h
      · exact Or.inl (mem_pathsInsert p acc)
      · exact Or.inr h

/-- every directory supplied by the caller is in the main file's include set -/
theorem caller_directories_searched (dirs : List Str) (p : Str) (hp : p ∈ dirs) :
    ∃ q ∈ dirs.foldl (fun acc p => pathsInsert p acc) [], pathEq p q = true :=
  foldl_insert_mem p dirs [] (Or.inr hp)

/-- `.includepath` adds its directory to the set of THIS file from the next line on: an absolute
    one as written, a relative one resolved against the directory of the file containing the
    directive (`cur`) -/
theorem includepath_step (inc : IncludeFn) (cur : Str) (incs : List Str) (st : PState) (path : Str) (ln : Nat)
    (par : Str) (hpar : pathParent cur = some par) :
    directiveParse inc cur incs st .includepath (.opList [.s path]) ln =
      .ok (st, pathsInsert (if isAbs path then path else pathPush par path) incs, .newLine) := by
  simp only [directiveParse, List.head?_cons, hpar]
  cases isAbs path <;> rfl

/-- directories added by `.includepath` inside an included file stay in force for the including
    file afterwards (as they would if the file's lines stood in its place): whatever is in the
    file's final set, other than the file's own directory, is handed back; and nothing the
    includer had is lost -/
theorem writeBack_keeps (own : Option Str) : ∀ (incsFile incs : List Str) (q : Str), q ∈ incs →
    q ∈ writeBack own incsFile incs := by
  intro incsFile
  induction incsFile with
  | nil => intro incs q h; exact h
  | cons a rest ih =>
    intro incs q h
    unfold writeBack
    simp only [List.foldl_cons]
    by_cases ho : own.any (pathEq a) = true
    · simp only [ho, if_true]; exact ih incs q h
    · simp only [ho, if_false, Bool.false_eq_true]; exact ih _ q (pathsInsert_keeps a q incs h)

/-! ### `.exit` ends only the file it is in -/

/-- `.exit` asks the loop of THIS file to stop … -/
theorem exit_step (inc : IncludeFn) (cur : Str) (incs : List Str) (st : PState) (ops : DirectiveOps) (ln : Nat) :
    directiveParse inc cur incs st .exit ops ln = .ok (st, incs, .endFile) := by
  simp [directiveParse]

/-- … which it does whatever lines remain, keeping the state reached; by `file_step` and
    `include_step` the including file then continues with its next line (`.newLine`) -/
theorem exit_ends_this_file (inc : IncludeFn) (cur : Str) (s : PState × List Str) (ls : List (Nat × Str)) :
    runFrom inc cur s .endFile ls = .ok s := by
  rw [runFrom_step]; simp [skipStep]

/-! ### pasting -/

/-- **Pasted text.**  When the loop works its way through the lines `ls` completely (no
    conditional or macro definition is left open at their end, no `.exit`), then those lines
    followed by more text `post` behave as: the state `ls` leaves, then `post` with nothing
    pending.  (`Lemmas.Paste.run_append`, for any include handler and any current file.) -/
theorem pasted_lines (inc : IncludeFn) (cur : Str) (s s' : PState × List Str) (ls post : List (Nat × Str))
    (h : Completes inc cur s .newLine ls s') :
    runFrom inc cur s .newLine (ls ++ post) = runFrom inc cur s' .newLine post :=
  run_append inc cur s .newLine ls s' h post

/-- **Included text.**  Under the same condition on the file's lines, the line
    `.include "path"` followed by `post` behaves as: the state the file's lines leave (run in the
    FILE's context: its path as current file, its own directory searched), then `post` with
    nothing pending, in the includer's context, with the include set the file hands back.
    This is `pasted_lines` up to exactly what the property says differs between the two: where
    relative `.includepath`s and nested `.include`s of the file resolve, and the line numbers
    (the file's lines are numbered from 1 in their own file).  A file whose lines do NOT complete
    (an `.if` or `.macro` left open) is the recorded finding: the skip ends with the file. -/
theorem included_lines (fs : Fs) (d : Nat) (cur : Str) (incs : List Str) (st : PState) (idx : Nat) (text path : Str)
    (post : List (Nat × Str)) (src : Str) (s' : PState × List Str)
    (hp : parseLine text = (some (.directiveLine none .include (.opList [.s path])), false))
    (hread : fs.read (resolve fs path incs) = some src)
    (hC : Completes (parseFileAt fs d) (resolve fs path incs) (st, insideSet (resolve fs path incs) incs) .newLine
            (numbered (lines src)) s') :
    runFrom (parseFileAt fs (d + 1)) cur (st, incs) .newLine ((idx, text) :: post) =
      runFrom (parseFileAt fs (d + 1)) cur (s'.1, writeBack (ownDir (resolve fs path incs) incs) s'.2 incs) .newLine post := by
  rw [runFrom_step]
  have hfile : parseFileAt fs (d + 1) path incs st =
      .ok (s'.1, writeBack (ownDir (resolve fs path incs) incs) s'.2 incs) := by
    rw [file_step, hread]
    simp only [run_alone _ _ _ _ _ _ hC]
  have hstep : lineStep (parseFileAt fs (d + 1)) cur incs st idx text false =
      .ok (s'.1, writeBack (ownDir (resolve fs path incs) incs) s'.2 incs, .newLine) := by
    unfold lineStep
    simp only [hp]
    have : ¬ (Directive.include = Directive.else ∨ Directive.include = Directive.elif ∧ (!false) = true) := by decide
    rw [if_neg this, include_step, hfile]
  simp only [skipStep, hstep]

/-! non-vacuity: a file found through a directory of the include set; one found nowhere -/
example : resolve { cwd := ['/'], files := [(['/', 'd', '/', 'x'], [])], dirs := [['/', 'd']] } ['x'] [['/', 'd']] = ['/', 'd', '/', 'x'] := by decide
example : ∀ c ∈ candidates ['y'] [['/', 'd']], Fs.exists { cwd := ['/'], files := [(['/', 'd', '/', 'x'], [])], dirs := [['/', 'd']] } c = false := by decide

end Avra.Props.C11
