/-
  C07 — the Intel HEX files reproduce the images byte for byte at the right addresses.

  Model: Avra.Model.Hex (writer.rs + the record formatting of the `ihex` crate).
  Spec:  Avra.Spec.Hex  (an independent READER; it knows nothing about the writer).
-/
import Avra.Lemmas.Hex
namespace Avra.Props.C07
open Avra Avra.Model.Hex Avra.Spec.Hex Avra.Lemmas.Hex

theorem place_eq (base a16 : Nat) : ∀ (bs : List Nat) (i : Nat), a16 + i + bs.length ≤ 65536 →
    place base a16 i bs = cellsAt (base + a16 + i) bs := by
  intro bs
  induction bs with
  | nil => intro i _; rfl
  | cons b bs ih =>
    intro i h
    simp only [List.length_cons] at h
    simp only [place, cellsAt]
    rw [ih (i + 1) (by omega)]
    have : (a16 + i) % 65536 = a16 + i := Nat.mod_eq_of_lt (by omega)
    have e1 : base + (a16 + i) = base + a16 + i := by omega
    have e2 : base + a16 + (i + 1) = base + a16 + i + 1 := by omega
    rw [this, e1, e2]

theorem cellsAt_append (a : Nat) (l1 l2 : List Nat) :
    cellsAt a (l1 ++ l2) = cellsAt a l1 ++ cellsAt (a + l1.length) l2 := by
  induction l1 generalizing a with
  | nil => simp [cellsAt]
  | cons x l1 ih =>
    simp only [List.cons_append, cellsAt, List.length_cons, ih]
    have e : a + 1 + l1.length = a + (l1.length + 1) := by omega
    rw [e]

/-- the records after the initial extended-segment record, interpreted from chunk index `i`
    with the base address then in force, yield the bytes at their image addresses -/
theorem data_interpret : ∀ (f : Nat) (l : List Nat) (i base : Nat),
    l.length ≤ f →
    (i % 4096 ≠ 0 ∨ i = 0 → base = i / 4096 * 65536) →
    16 * i + l.length ≤ 4294967296 →
    interpret ((dataRecords i (chunks 16 f l)).map toRec ++ [Rec.eof]) base = some (cellsAt (16 * i) l) := by
  intro f
  induction f with
  | zero =>
    intro l i base hl _ _
    have : l = [] := by cases l <;> simp_all
    subst this
    simp [chunks, dataRecords, interpret, cellsAt]
  | succ f ih =>
    intro l i base hl hbase hsz
    cases l with
    | nil => simp [chunks, dataRecords, interpret, cellsAt]
    | cons x xs =>
      have hlen : ((x :: xs).take 16).length ≤ 16 := by rw [List.length_take]; omega
      have hsplit : x :: xs = (x :: xs).take 16 ++ (x :: xs).drop 16 := (List.take_append_drop 16 _).symm
      have hdroplen : ((x :: xs).drop 16).length ≤ f := by
        rw [List.length_drop]; simp only [List.length_cons] at hl ⊢; omega
      have hcells : cellsAt (16 * i) (x :: xs) =
          cellsAt (16 * i) ((x :: xs).take 16) ++ cellsAt (16 * (i + 1)) ((x :: xs).drop 16) := by
        conv => lhs; rw [hsplit]
        rw [cellsAt_append]
        by_cases hfull : 16 ≤ (x :: xs).length
        · have : ((x :: xs).take 16).length = 16 := by rw [List.length_take]; omega
          rw [this]
          have e : 16 * i + 16 = 16 * (i + 1) := by omega
          rw [e]
        · have : (x :: xs).drop 16 = [] := by apply List.drop_eq_nil_of_le; omega
          rw [this]; simp [cellsAt]
      have hblock : i / 4096 < 65536 := by
        simp only [List.length_cons] at hsz
        omega
      have hoff : i % 4096 * 16 + 0 + ((x :: xs).take 16).length ≤ 65536 := by omega
      have haddr : i / 4096 * 65536 + i % 4096 * 16 + 0 = 16 * i := by omega
      have hnext : ((i + 1) % 4096 ≠ 0 ∨ i + 1 = 0 → i / 4096 * 65536 = (i + 1) / 4096 * 65536) := by
        intro h; rcases h with h | h
        · have : (i + 1) / 4096 = i / 4096 := by omega
          rw [this]
        · exact absurd h (Nat.succ_ne_zero i)
      have hrest := ih ((x :: xs).drop 16) (i + 1) (i / 4096 * 65536) hdroplen hnext (by
        rw [List.length_drop]; simp only [List.length_cons] at hsz ⊢; omega)
      have hplace := place_eq (i / 4096 * 65536) (i % 4096 * 16) ((x :: xs).take 16) 0 hoff
      rw [haddr] at hplace
      have hchunks : chunks 16 (f + 1) (x :: xs) = (x :: xs).take 16 :: chunks 16 f ((x :: xs).drop 16) := rfl
      rw [hchunks]
      by_cases hnew : i > 0 ∧ i % 4096 = 0
      · -- a new 64 KiB block: extended linear address record first
        have hrec : dataRecords i ((x :: xs).take 16 :: chunks 16 f ((x :: xs).drop 16)) =
            Record.extLin (i / 4096 % 65536) :: Record.data (i % 4096 * 16) ((x :: xs).take 16) ::
              dataRecords (i + 1) (chunks 16 f ((x :: xs).drop 16)) := by
          simp only [dataRecords]; rw [if_pos hnew]; rfl
        have hm : i / 4096 % 65536 = i / 4096 := Nat.mod_eq_of_lt hblock
        rw [hrec, hm]
        simp only [List.map_cons, List.cons_append, toRec, interpret]
        rw [hrest, hplace, hcells]
        rfl
      · have hb : base = i / 4096 * 65536 := by
          apply hbase
          by_cases h0 : i = 0
          · exact Or.inr h0
          · left; intro h; exact hnew ⟨by omega, h⟩
        have hrec : dataRecords i ((x :: xs).take 16 :: chunks 16 f ((x :: xs).drop 16)) =
            Record.data (i % 4096 * 16) ((x :: xs).take 16) ::
              dataRecords (i + 1) (chunks 16 f ((x :: xs).drop 16)) := by
          simp only [dataRecords]; rw [if_neg hnew]; rfl
        rw [hrec, hb]
        simp only [List.map_cons, List.cons_append, toRec, interpret]
        rw [hrest, hplace, hcells]
        rfl

theorem chunks_ok (f : Nat) : ∀ (l : List Nat), bytesOk l → ∀ c ∈ chunks 16 f l, c.length < 256 ∧ bytesOk c := by
  induction f with
  | zero => intro l _ c hc; simp [chunks] at hc
  | succ f ih =>
    intro l hl c hc
    cases l with
    | nil => simp [chunks] at hc
    | cons x xs =>
      simp only [chunks, List.mem_cons] at hc
      rcases hc with rfl | hc
      · refine ⟨by simp; omega, fun b hb => hl b (List.mem_of_mem_take hb)⟩
      · exact ih _ (fun b hb => hl b (List.mem_of_mem_drop hb)) c hc

theorem dataRecords_ok : ∀ (cs : List (List Nat)) (i : Nat), (∀ c ∈ cs, c.length < 256 ∧ bytesOk c) →
    ∀ r ∈ dataRecords i cs, recOk r := by
  intro cs
  induction cs with
  | nil => intro i _ r hr; simp [dataRecords] at hr
  | cons c cs ih =>
    intro i h r hr
    simp only [dataRecords, List.mem_append, List.mem_cons] at hr
    rcases hr with hr | rfl | hr
    · split at hr
      · simp at hr; subst hr; simp only [recOk]; omega
      · simp at hr
    · have := h c (by simp)
      simp only [recOk]; exact ⟨by omega, this.1, this.2⟩
    · exact ih (i + 1) (fun x hx => h x (by simp [hx])) r hr

theorem generate_ok (img : List Nat) (h : bytesOk img) : ∀ r ∈ generate img, recOk r := by
  intro r hr
  simp only [generate, List.mem_append, List.mem_cons, List.mem_nil_iff, or_false] at hr
  rcases hr with hr | rfl
  · split at hr
    · simp only [List.mem_cons] at hr
      rcases hr with rfl | hr
      · simp [recOk]
      · exact dataRecords_ok _ 0 (chunks_ok _ _ h) r hr
    · simp at hr
  · trivial

/-- the file is exactly its records, one per line -/
theorem file_records (img : List Nat) (h : bytesOk img) :
    records (fileText img) = some ((generate img).map toRec) := by
  unfold records fileText
  have hsplit := split_lines ((generate img).map recordText) (by
    intro l hl
    simp only [List.mem_map] at hl
    obtain ⟨r, _, rfl⟩ := hl
    exact recordText_ne r)
  have hflat : (generate img).flatMap (fun r => recordText r ++ ['\r', '\n']) =
      ((generate img).map recordText).flatMap (fun l => l ++ ['\r', '\n']) := by
    rw [List.flatMap_map]
  rw [hflat, hsplit]
  exact allSome_map_parse _ (generate_ok img h)

/-- C07: for EVERY image (any length up to 4 GiB, any byte contents, the empty image included)
    the file written consists solely of well-formed records with valid checksums (every line
    parses under the independent reader, which verifies length field and checksum), ends in the
    one end-of-file record, and decodes to exactly byte `i` of the image at address `i` — every
    byte once, none elsewhere.  One function serves the code and the EEPROM writer. -/
theorem hex_roundtrip (img : List Nat) (hb : bytesOk img) (hlen : img.length ≤ 2 ^ 32) :
    readCells (fileText img) = some (imageCells img) := by
  unfold readCells
  rw [file_records img hb]
  simp only [generate, imageCells]
  by_cases h0 : img.length > 0
  · simp only [h0, if_true, List.cons_append, List.map_cons, toRec, interpret, List.map_append, List.map_nil]
    have h232 : (2 : Nat) ^ 32 = 4294967296 := by decide
    rw [h232] at hlen
    have := data_interpret img.length img 0 0 (Nat.le_refl _) (by intro _; rfl) (by omega)
    simpa using this
  · have : img = [] := by cases img <;> simp_all
    subst this
    simp [interpret, cellsAt, toRec]

/-- no address is written twice (so `read`, which rejects duplicates, accepts the file too) -/
theorem cellsAt_addrs (l : List Nat) : ∀ a, (cellsAt a l).map (·.1) = List.range' a l.length := by
  induction l with
  | nil => intro a; rfl
  | cons x l ih => intro a; simp [cellsAt, ih, List.range']

/-! non-vacuity: the theorem's hypotheses on concrete images, and the reader rejecting a
    corrupted file -/
example : readCells (fileText [1, 2, 3]) = some [(0, 1), (1, 2), (2, 3)] := by decide
example : fileText [] = ":00000001FF\r\n\r\n".toList := by decide
example : readCells ":0300000001020AFA\r\n:00000001FF\r\n".toList = none := by decide   -- bad checksum

end Avra.Props.C07
