/-
  C01 — every valid instruction assembles to its exact AVR ISA machine code.

  The theorems are about the model of `instruction::process` (Avra.Model.Encode, tied to /repo by
  the Gen tables and the correspondence run) against the independent ISA (Avra.Isa).
-/
import Avra.Props.Enc
import Avra.Lemmas.Resolve
namespace Avra.Props.C01
open Avra Avra.Model Avra.Isa Avra.Lemmas Avra.Props.Enc

/-- standard mnemonic (not a macro call) -/
def isStd (op : Op) : Prop := ∀ n, op ≠ .custom n

/-- C01, full strength at the level of one instruction: whenever the independent legality spec
    says that mnemonic `op` with the operands as resolved in context `c` denotes the AVR
    instruction `i` (any mnemonic, any legal operand tuple, any expression operands, any `.def`
    aliases, either core, any address), `process` emits exactly the ISA words of `i`, low byte
    first. -/
theorem process_complete (c : Ctx) (op : Op) (args : List IOp) (addr : Nat) (r : List AArg) (i : Instr)
    (hstd : isStd op) (hc : ctxRegsOk c) (hargs : iopsOk args)
    (hres : resolve c (accessors op) args = some r)
    (hleg : surface c.device.isAvr8l op r addr = some i) :
    process c op args addr = .ok (Isa.bytes (encode i)) := by
  have hr := resolve_regsOk c hc _ _ _ hargs hres
  rw [process_eq c op args addr r hres, model_eq_spec _ op r addr hstd hr]
  simp [sWords, hleg]

/-- the number of words emitted is the length the opcode table announces (used by the layout
    property C02): one word, two for jmp/call and classic-core lds/sts -/
theorem words_count (i : Instr) : (encode i).length = match i with
    | .abs _ _ | .lds _ _ | .sts _ _ => 2
    | _ => 1 := by
  cases i <;> simp [encode]

/-- byte order: low byte first, two bytes per word -/
theorem bytes_le (ws : List Nat) : (Isa.bytes ws).length = 2 * ws.length := by
  induction ws with
  | nil => simp [Isa.bytes]
  | cons w ws ih => simp [Isa.bytes] at *; omega

/-- the reading of a pattern by maximal runs (used for speed in the kernel) and the bit-by-bit
    reading agree on every pattern of the ISA file, for sample field values of all-ones (every
    field bit placed) — a cross-check of the pattern compiler, not a property theorem -/
theorem word_is_bitwise_rr : ∀ o : RROp, word (rrPat o) [(fld!"d", 31), (fld!"r", 31)] =
    wordBitwise (rrPat o) [(fld!"d", 31), (fld!"r", 31)] := by
  intro o; cases o <;> decide

/-! non-vacuity: concrete instances of the hypotheses -/

/-- a classic-core context without symbols -/
def exCtx : Ctx := { device := { flash := 4194304, ramStart := 96, ramSize := 8388608, eeprom := 65536, opts := [] } }


example : process exCtx .ldi [.r8 16, .e (.const 255)] 0 = .ok [0x0f, 0xef] := by decide
example : surface false .ldi [.reg 16, .val 255] 0 = some (.imm .ldi 16 255) := by decide
example : process exCtx .jmp [.e (.const 0x12345)] 0 = .ok [0x0d, 0x94, 0x45, 0x23] := by decide

end Avra.Props.C01
