/-
  C03 — relative branches and jumps reach exactly the target that was named.
-/
import Avra.Props.C04
namespace Avra.Props.C03
open Avra Avra.Model Avra.Isa Avra.Lemmas Avra.Props.Enc Avra.Props.C01

/-- sign extension of a `bits`-bit field (the decoder's view of a displacement) -/
def signExt (bits : Nat) (f : Nat) : Int :=
  if f < 2 ^ (bits - 1) then (f : Int) else (f : Int) - 2 ^ bits

theorem signExt_twos7 (k : Int) (h : -64 ≤ k ∧ k ≤ 63) : signExt 7 (twos 7 k) = k := by
  unfold signExt twos
  have : (2 : Int) ^ 7 = 128 := by decide
  simp only [this]
  by_cases hk : k < 0
  · have e : (k % 128).toNat = (k + 128).toNat := by omega
    simp only [e]
    have : ¬ ((k + 128).toNat < 2 ^ (7 - 1)) := by simp; omega
    simp only [this, if_false]; omega
  · have e : (k % 128).toNat = k.toNat := by omega
    simp only [e]
    have : (k.toNat < 2 ^ (7 - 1)) := by simp; omega
    simp only [this, if_true]; omega

theorem signExt_twos12 (k : Int) (h : -2048 ≤ k ∧ k ≤ 2047) : signExt 12 (twos 12 k) = k := by
  unfold signExt twos
  have : (2 : Int) ^ 12 = 4096 := by decide
  simp only [this]
  by_cases hk : k < 0
  · have e : (k % 4096).toNat = (k + 4096).toNat := by omega
    simp only [e]
    have : ¬ ((k + 4096).toNat < 2 ^ (12 - 1)) := by simp; omega
    simp only [this, if_false]; omega
  · have e : (k % 4096).toNat = k.toNat := by omega
    simp only [e]
    have : (k.toNat < 2 ^ (12 - 1)) := by simp; omega
    simp only [this, if_true]; omega

/-- which mnemonics are relative: the 18 named conditions, brbs/brbc, rjmp, rcall -/
inductive RelOp
  | br (b : BranchT) | rjmp | rcall

/-- C03 for conditional branches, at every address and for every i64 target: the build of the
    instruction succeeds iff the displacement `d = target − (address + 1)` fits −64..63, and then
    the emitted word is the ISA's `brbs/brbc s, d` whose 7-bit field sign-extends to exactly `d`
    (never a wrapped or truncated offset). -/
theorem branch_exact (b : Bool) (t : BranchT) (clear : Bool) (s : Nat) (hb : branchFlag t = some (clear, s))
    (addr : Nat) (target : Int) :
    mWords b (.br t) [.val target] addr =
      (if -64 ≤ relOf addr target ∧ relOf addr target ≤ 63
       then some (encode (.brb clear s (relOf addr target))) else none) ∧
    (-64 ≤ relOf addr target ∧ relOf addr target ≤ 63 →
      signExt 7 (twos 7 (relOf addr target)) = relOf addr target ∧
      target = (addr : Int) + 1 + relOf addr target) := by
  constructor
  · rw [model_eq_spec b (.br t) _ addr (by intro n h; cases h) (by simp [regsOk])]
    unfold sWords
    have : surface b (.br t) [.val target] addr = sBr t addr [.val target] := by
      cases t <;> first | rfl | (simp [branchFlag] at hb)
    rw [this]
    simp only [sBr, hb, inRange, Bool.and_eq_true, decide_eq_true_eq]
    by_cases h : -64 ≤ relOf addr target ∧ relOf addr target ≤ 63
    · simp [h]
    · simp [h]
  · intro h
    exact ⟨signExt_twos7 _ h, by unfold relOf; omega⟩

/-- the same for brbs / brbc with an explicit flag number -/
theorem brb_exact (b : Bool) (clear : Bool) (addr : Nat) (s target : Int) :
    mWords b (.br (if clear then .bc else .bs)) [.val s, .val target] addr =
      (if (0 ≤ s ∧ s ≤ 7) ∧ (-64 ≤ relOf addr target ∧ relOf addr target ≤ 63)
       then some (encode (.brb clear s.toNat (relOf addr target))) else none) := by
  cases clear
  · rw [model_eq_spec b _ _ addr (by intro n h; simp at h) (by simp [regsOk])]
    simp only [sWords, Bool.false_eq_true, if_false]
    show (sBrb false addr [.val s, .val target]).map encode = _
    simp only [sBrb, inRange, Bool.and_eq_true, decide_eq_true_eq]
    by_cases h : (0 ≤ s ∧ s ≤ 7) ∧ (-64 ≤ relOf addr target ∧ relOf addr target ≤ 63)
    · simp [h]
    · simp [h]
  · rw [model_eq_spec b _ _ addr (by intro n h; simp at h) (by simp [regsOk])]
    simp only [sWords, if_true]
    show (sBrb true addr [.val s, .val target]).map encode = _
    simp only [sBrb, inRange, Bool.and_eq_true, decide_eq_true_eq]
    by_cases h : (0 ≤ s ∧ s ≤ 7) ∧ (-64 ≤ relOf addr target ∧ relOf addr target ≤ 63)
    · simp [h]
    · simp [h]

/-- C03 for rjmp / rcall: ok iff −2048 ≤ d ≤ 2047, exact 12-bit displacement -/
theorem rjmp_exact (b : Bool) (call : Bool) (addr : Nat) (target : Int) :
    mWords b (if call then .rcall else .rjmp) [.val target] addr =
      (if -2048 ≤ relOf addr target ∧ relOf addr target ≤ 2047
       then some (encode (.rel call (relOf addr target))) else none) ∧
    (-2048 ≤ relOf addr target ∧ relOf addr target ≤ 2047 →
      signExt 12 (twos 12 (relOf addr target)) = relOf addr target ∧
      target = (addr : Int) + 1 + relOf addr target) := by
  constructor
  · cases call
    · rw [model_eq_spec b _ _ addr (by intro n h; simp at h) (by simp [regsOk])]
      simp only [sWords, Bool.false_eq_true, if_false]
      show (sRel false addr [.val target]).map encode = _
      simp only [sRel, inRange, Bool.and_eq_true, decide_eq_true_eq]
      by_cases h : -2048 ≤ relOf addr target ∧ relOf addr target ≤ 2047
      · simp [h]
      · simp [h]
    · rw [model_eq_spec b _ _ addr (by intro n h; simp at h) (by simp [regsOk])]
      simp only [sWords, if_true]
      show (sRel true addr [.val target]).map encode = _
      simp only [sRel, inRange, Bool.and_eq_true, decide_eq_true_eq]
      by_cases h : -2048 ≤ relOf addr target ∧ relOf addr target ≤ 2047
      · simp [h]
      · simp [h]
  · intro h
    exact ⟨signExt_twos12 _ h, by unfold relOf; omega⟩

/-- the field really sits where the ISA says: the decoder's extraction of bits 9..3 of the
    emitted branch word gives back the two's-complement field (whole 7-bit table × 8 flags × both
    polarities, by kernel evaluation) -/
theorem branch_field_position : ∀ clear : Bool, ∀ s, s < 8 → ∀ f, f < 128 →
    (word (if clear then pat!"1111 01kk kkkk ksss" else pat!"1111 00kk kkkk ksss")
      [(fld!"s", s), (fld!"k", f)]) / 8 % 128 = f := by
  have h := allIn2 (fun (s f : Nat) => decide (∀ clear : Bool,
    (word (if clear then pat!"1111 01kk kkkk ksss" else pat!"1111 00kk kkkk ksss")
      [(fld!"s", s), (fld!"k", f)]) / 8 % 128 = f)) 3 7 (by decide +kernel)
  intro clear s hs f hf
  have := h s f hs hf
  simp only [decide_eq_true_eq] at this
  exact this clear

/-! non-vacuity -/
example : mWords false (.br .eq) [.val 64] 0 = some [0xf1f9] := by decide     -- d = 63: accepted
example : mWords false (.br .eq) [.val 65] 0 = none := by decide              -- d = 64: rejected
example : mWords false .rjmp [.val (-2047)] 0 = some [0xc800] := by decide    -- d = −2048
example : mWords false .rjmp [.val (-2048)] 0 = none := by decide             -- d = −2049

end Avra.Props.C03
