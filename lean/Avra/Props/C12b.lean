/-
  C12, "a program that fills a memory exactly to capacity builds and one that needs a single unit
  more fails", as pass 1 decides it: for flash filled with one-word instructions, and for EEPROM
  and RAM filled with `.byte` reservations.
-/
import Avra.Props.C12
namespace Avra.Props.C12b
open Avra Avra.Model

theorem info_nop (b : Bool) : ∃ base, info b .nop = some (1, base) := by
  have h : ∀ b : Bool, ((info b .nop).map (·.1)) = some 1 := by decide
  have := h b
  cases hi : info b .nop with
  | none => rw [hi] at this; cases this
  | some v => obtain ⟨l, base⟩ := v; rw [hi] at this; simp at this; exact ⟨base, by rw [this]⟩

/-- `k` one-word instructions from word `cur` on, in a flash of `limit` words: pass 1 accepts them
    iff `cur + k ≤ limit` — exactly full builds, one word more is refused -/
theorem flash_fill_exact (limit ln : Nat) (ctx : Ctx) : ∀ (k cur : Nat),
    (cur + k ≤ limit →
      pass1Items .code limit (List.replicate k (ln, .instruction .nop [])) cur ctx =
        .ok (cur + k, List.replicate k (ln, .instruction .nop []), ctx)) ∧
    (cur + k > limit → ∃ e, pass1Items .code limit (List.replicate k (ln, .instruction .nop [])) cur ctx = .error e ∧
        e.kind = "overdue") := by
  intro k
  induction k with
  | zero =>
    intro cur
    constructor
    · intro h; unfold pass1Items; simp [show ¬ cur > limit by omega]
    · intro h; refine ⟨⟨none, "overdue"⟩, ?_, rfl⟩
      unfold pass1Items; simp [show cur > limit by omega, noLineErr]
  | succ k ih =>
    intro cur
    obtain ⟨base, hb⟩ := info_nop ctx.device.isAvr8l
    constructor
    · intro h
      have := (ih (cur + 1)).1 (by omega)
      simp only [List.replicate_succ]
      unfold pass1Items
      simp only [show ¬ cur > limit by omega, if_false, hb, this, consItem]
      congr 2; omega
    · intro h
      simp only [List.replicate_succ]
      by_cases hc : cur > limit
      · refine ⟨⟨some ln, "overdue"⟩, ?_, rfl⟩
        unfold pass1Items; simp [hc, lineErr]
      · obtain ⟨e, he, hk⟩ := (ih (cur + 1)).2 (by omega)
        refine ⟨e, ?_, hk⟩
        unfold pass1Items
        simp only [hc, if_false, hb, he, consItem]

/-- a reservation of `n` bytes from `cur` on in RAM (`.dseg`) or EEPROM of capacity `limit`:
    accepted iff `cur + n ≤ limit` -/
theorem reserve_fill_exact (t : SegT) (ht : t ≠ .code) (limit ln : Nat) (n : Nat) (hn : n ≤ 4294967295) (cur : Nat) (ctx : Ctx)
    (hcur : cur ≤ limit) :
    (cur + n ≤ limit → ∃ its, pass1Items t limit [(ln, .reserveData (n : Int))] cur ctx = .ok (cur + n, its, ctx)) ∧
    (cur + n > limit → pass1Items t limit [(ln, .reserveData (n : Int))] cur ctx = .error ⟨none, "overdue"⟩) := by
  have hr : ¬ ((n : Int) < 0 ∨ (n : Int) > 4294967295) := by omega
  constructor
  · intro h
    cases t with
    | code => exact absurd rfl ht
    | data =>
      refine ⟨[], ?_⟩
      unfold pass1Items
      simp only [show ¬ cur > limit by omega, if_false, hr, Int.toNat_natCast]
      simp only [show ¬ (SegT.data = SegT.eeprom) by decide, if_false]
      unfold pass1Items
      simp [show ¬ cur + n > limit by omega]
    | eeprom =>
      refine ⟨[(ln, .reserveData (n : Int))], ?_⟩
      unfold pass1Items
      simp only [show ¬ cur > limit by omega, if_false, hr, Int.toNat_natCast, if_true]
      unfold pass1Items
      simp [show ¬ cur + n > limit by omega, consItem]
  · intro h
    cases t with
    | code => exact absurd rfl ht
    | data =>
      unfold pass1Items
      simp only [show ¬ cur > limit by omega, if_false, hr, Int.toNat_natCast]
      simp only [show ¬ (SegT.data = SegT.eeprom) by decide, if_false]
      unfold pass1Items
      simp [h, noLineErr]
    | eeprom =>
      unfold pass1Items
      simp only [show ¬ cur > limit by omega, if_false, hr, Int.toNat_natCast, if_true]
      unfold pass1Items
      simp [h, noLineErr, consItem]

end Avra.Props.C12b
