/-
  C14 at the level of the build — `build_same`: in a program without macro definitions every line
  may be replaced by a line that parses to the same thing, and the build result is the same.
  Together with the whole-line theorems (C14, C14x) and the expression theorems (C05pp) this is
  "surface syntax that carries no meaning never changes the output" as a theorem about the model,
  for the classes of lines those theorems cover.
-/
import Avra.Model.Build
import Avra.Props.C14
namespace Avra.Props.C14
open Avra Avra.Model Avra.Peg
set_option linter.unusedSimpArgs false
set_option linter.unusedVariables false
set_option linter.constructorNameAsVariable false

/-! ### from lines to builds: lines with the same parse are interchangeable -/

/-- two numbered line lists whose lines parse alike, line for line -/
inductive SameDocs : List (Nat × Str) → List (Nat × Str) → Prop
  | nil : SameDocs [] []
  | cons (n : Nat) (l l' : Str) (ls ls' : List (Nat × Str)) :
      parseLine l = parseLine l' → SameDocs ls ls' → SameDocs ((n, l) :: ls) ((n, l') :: ls')

/-- no line opens a macro definition -/
def NoMacroDef (ls : List (Nat × Str)) : Prop :=
  ∀ x ∈ ls, ∀ lab ops o, parseLine x.2 ≠ (some (.directiveLine lab .macro ops), o)

/-- the results of the two skippers, related the same way -/
def SameLine : Option (Nat × Str) → Option (Nat × Str) → Prop
  | none, none => True
  | some (n, l), some (n', l') => n = n' ∧ parseLine l = parseLine l'
  | _, _ => False

theorem skipCond_same (all : Bool) : ∀ (ls ls' : List (Nat × Str)), SameDocs ls ls' → ∀ (d : Nat),
    SameLine (skipCond all d ls).1 (skipCond all d ls').1 ∧
    (skipCond all d ls).2.1 = (skipCond all d ls').2.1 ∧
    SameDocs (skipCond all d ls).2.2.1 (skipCond all d ls').2.2.1 ∧
    (skipCond all d ls).2.2.2 = (skipCond all d ls').2.2.2 := by
  intro ls ls' h
  induction h with
  | nil => intro d; exact ⟨trivial, rfl, .nil, rfl⟩
  | cons n l l' ls ls' hp hs ih =>
    intro d
    unfold skipCond
    rw [← hp]
    split
    · rename_i lab dd ops o heq
      split
      · exact ih _
      · split
        · split
          · split
            · exact ih _
            · split
              · exact ⟨⟨rfl, hp⟩, rfl, hs, rfl⟩
              · cases hs with
                | nil => exact ⟨trivial, rfl, .nil, rfl⟩
                | cons n2 l2 l2' r r' hp2 hs2 => exact ⟨⟨rfl, hp2⟩, rfl, hs2, rfl⟩
          · split
            · exact ih _
            · exact ih _
        · exact ih _
    · exact ⟨trivial, rfl, .nil, rfl⟩
    · exact ih _

theorem lineStep_same (inc : IncludeFn) (cur : Str) (incs : List Str) (st : PState) (idx : Nat) (t t' : Str) (re : Bool)
    (h : parseLine t = parseLine t') : lineStep inc cur incs st idx t re = lineStep inc cur incs st idx t' re := by
  unfold lineStep
  rw [h]

/-- only `.macro` asks for a macro body to be collected -/
theorem directiveParse_endMacro (inc : IncludeFn) (cur : Str) (incs : List Str) (st : PState) (d : Directive)
    (ops : DirectiveOps) (ln : Nat) (st' : PState) (incs' : List Str)
    (h : directiveParse inc cur incs st d ops ln = .ok (st', incs', .endMacro)) : d = .macro := by
  unfold directiveParse at h
  dsimp only at h
  repeat' split at h
  all_goals first
    | rfl
    | (simp [lineErr] at h; done)
    | (simp only [Out.ok.injEq, Prod.mk.injEq] at h; exact absurd h.2.2 (by decide))
    | (simp only [Out.ok.injEq, Prod.mk.injEq, reduceCtorEq, and_false] at h)

theorem lineStep_noEndMacro (inc : IncludeFn) (cur : Str) (incs : List Str) (st : PState) (idx : Nat) (t : Str) (re : Bool)
    (hno : ∀ lab ops o, parseLine t ≠ (some (.directiveLine lab .macro ops), o))
    (st' : PState) (incs' : List Str) (ni' : NextItem)
    (h : lineStep inc cur incs st idx t re = .ok (st', incs', ni')) : ni' ≠ .endMacro := by
  intro hni
  subst hni
  unfold lineStep at h
  dsimp only at h
  split at h
  · simp at h
  · simp [lineErr] at h
  · rename_i doc o _ hp
    split at h
    · simp at h
    · simp at h
    · rename_i lab d ops
      split at h
      · simp at h
      · have := directiveParse_endMacro _ _ _ _ _ _ _ _ _ h
        subst this
        exact hno lab ops o hp
    · simp at h

theorem sameDocs_refl : ∀ ls : List (Nat × Str), SameDocs ls ls
  | [] => .nil
  | (n, l) :: rest => .cons n l l rest rest rfl (sameDocs_refl rest)

theorem noMacroDef_tail (x : Nat × Str) (ls : List (Nat × Str)) (h : NoMacroDef (x :: ls)) : NoMacroDef ls :=
  fun y hy => h y (List.mem_cons_of_mem _ hy)

/-- the skipper keeps the relation and only ever drops lines -/
theorem skipCond_sub (all : Bool) : ∀ (ls : List (Nat × Str)) (d : Nat),
    (∀ x ∈ (skipCond all d ls).2.2.1, x ∈ ls) ∧ ∀ x, (skipCond all d ls).1 = some x → x ∈ ls := by
  intro ls
  induction ls with
  | nil => intro d; simp [skipCond]
  | cons y ys ih =>
    intro d
    obtain ⟨n, l⟩ := y
    have lift : ∀ d', (∀ x ∈ (skipCond all d' ys).2.2.1, x ∈ (n, l) :: ys) ∧ ∀ x, (skipCond all d' ys).1 = some x → x ∈ (n, l) :: ys :=
      fun d' => ⟨fun x hx => List.mem_cons_of_mem _ ((ih d').1 x hx), fun x hx => List.mem_cons_of_mem _ ((ih d').2 x hx)⟩
    unfold skipCond
    split
    · split
      · exact lift _
      · split
        · split
          · split
            · exact lift _
            · split
              · refine ⟨fun x hx => List.mem_cons_of_mem _ hx, ?_⟩
                intro x hx; simp only [Option.some.injEq] at hx; subst hx; exact List.mem_cons_self ..
              · cases ys with
                | nil => simp
                | cons z zs =>
                  refine ⟨fun x hx => List.mem_cons_of_mem _ (List.mem_cons_of_mem _ hx), ?_⟩
                  intro x hx; simp only [Option.some.injEq] at hx; subst hx
                  exact List.mem_cons_of_mem _ (List.mem_cons_self ..)
          · split
            · exact lift _
            · exact lift _
        · exact lift _
    · simp
    · exact lift _

/-- one round of the loop after the skipper has delivered related lines -/
theorem round_same (inc : IncludeFn) (cur : Str) (lf : Nat)
    (ih : ∀ incs st ni ls ls', SameDocs ls ls' → NoMacroDef ls → ni ≠ .endMacro →
      parseIterWith inc cur lf incs st ni ls = parseIterWith inc cur lf incs st ni ls')
    (incs : List Str) (st : PState) (nx nx' : Option (Nat × Str)) (re : Bool) (rest rest' : List (Nat × Str)) (o : Bool)
    (hnx : SameLine nx nx') (hrest : SameDocs rest rest') (hnm : NoMacroDef rest)
    (hnmx : ∀ x, nx = some x → ∀ lab ops o, parseLine x.2 ≠ (some (.directiveLine lab .macro ops), o)) :
    (match (st, nx, re, rest, o) with
      | (_, _, _, _, true) => Out.oof
      | (st, none, _, _, false) => Out.ok (st, incs)
      | (st, some (idx, text), redelivered, rest, false) =>
        match lineStep inc cur incs st idx text redelivered with
        | .ok (st', incs', ni') => parseIterWith inc cur lf incs' st' ni' rest
        | .error e => .error e
        | .panic s => .panic s
        | .oof => .oof) =
    (match (st, nx', re, rest', o) with
      | (_, _, _, _, true) => Out.oof
      | (st, none, _, _, false) => Out.ok (st, incs)
      | (st, some (idx, text), redelivered, rest, false) =>
        match lineStep inc cur incs st idx text redelivered with
        | .ok (st', incs', ni') => parseIterWith inc cur lf incs' st' ni' rest
        | .error e => .error e
        | .panic s => .panic s
        | .oof => .oof) := by
  cases o with
  | true => rfl
  | false =>
    cases nx with
    | none =>
      cases nx' with
      | none => rfl
      | some x' => exact absurd hnx (by simp [SameLine])
    | some x =>
      cases nx' with
      | none => exact absurd hnx (by obtain ⟨n, l⟩ := x; simp [SameLine])
      | some x' =>
        obtain ⟨n, l⟩ := x
        obtain ⟨n', l'⟩ := x'
        obtain ⟨hn, hp⟩ := hnx
        subst hn
        simp only
        rw [lineStep_same inc cur incs st n l l' re hp]
        cases hl : lineStep inc cur incs st n l' re with
        | ok v =>
          obtain ⟨st', incs', ni'⟩ := v
          simp only
          have hni : ni' ≠ .endMacro := by
            rw [← lineStep_same inc cur incs st n l l' re hp] at hl
            exact lineStep_noEndMacro inc cur incs st n l re (hnmx (n, l) rfl) st' incs' ni' hl
          exact ih incs' st' ni' rest rest' hrest hnm hni
        | error e => rfl
        | panic p => rfl
        | oof => rfl

/-- **lines with the same parse are interchangeable**: as long as no line opens a macro definition
    (a macro body is kept as text), the parser's result depends on the lines only through what
    each line parses to -/
theorem parseIterWith_same (inc : IncludeFn) (cur : Str) : ∀ (f : Nat) (incs : List Str) (st : PState) (ni : NextItem)
    (ls ls' : List (Nat × Str)), SameDocs ls ls' → NoMacroDef ls → ni ≠ .endMacro →
      parseIterWith inc cur f incs st ni ls = parseIterWith inc cur f incs st ni ls' := by
  intro f
  induction f with
  | zero => intro incs st ni ls ls' _ _ _; rfl
  | succ lf ih =>
    intro incs st ni ls ls' hs hnm hni
    simp only [parseIterWith]
    cases ni with
    | endMacro => exact absurd rfl hni
    | endFile => rfl
    | newLine =>
      cases hs with
      | nil => rfl
      | cons n l l' r r' hp hr =>
        simp only [skipStep]
        exact round_same inc cur lf ih incs st (some (n, l)) (some (n, l')) false r r' false ⟨rfl, hp⟩ hr
          (noMacroDef_tail _ _ hnm) (by
            intro x hx
            simp only [Option.some.injEq] at hx
            subst hx
            exact hnm (n, l) (List.mem_cons_self ..))
    | endIf =>
      simp only [skipStep]
      obtain ⟨h1, h2, h3, h4⟩ := skipCond_same false ls ls' hs 0
      obtain ⟨hsub1, hsub2⟩ := skipCond_sub false ls 0
      generalize skipCond false 0 ls = A at h1 h2 h3 h4 hsub1 hsub2
      generalize skipCond false 0 ls' = B at h1 h2 h3 h4
      obtain ⟨a1, a2, a3, a4⟩ := A
      obtain ⟨b1, b2, b3, b4⟩ := B
      simp only at h1 h2 h3 h4 hsub1 hsub2
      subst h2; subst h4
      exact round_same inc cur lf ih incs st a1 b1 a2 a3 b3 a4 h1 h3 (fun x hx => hnm x (hsub1 x hx))
        (fun x hx => hnm x (hsub2 x hx))
    | endIfAll =>
      simp only [skipStep]
      obtain ⟨h1, h2, h3, h4⟩ := skipCond_same true ls ls' hs 0
      obtain ⟨hsub1, hsub2⟩ := skipCond_sub true ls 0
      generalize skipCond true 0 ls = A at h1 h2 h3 h4 hsub1 hsub2
      generalize skipCond true 0 ls' = B at h1 h2 h3 h4
      obtain ⟨a1, a2, a3, a4⟩ := A
      obtain ⟨b1, b2, b3, b4⟩ := B
      simp only at h1 h2 h3 h4 hsub1 hsub2
      subst h2; subst h4
      exact round_same inc cur lf ih incs st a1 b1 a2 a3 b3 a4 h1 h3 (fun x hx => hnm x (hsub1 x hx))
        (fun x hx => hnm x (hsub2 x hx))

/-- two texts, line by line: each line parses alike -/
inductive SameLines : List Str → List Str → Prop
  | nil : SameLines [] []
  | cons (l l' : Str) (ls ls' : List Str) : parseLine l = parseLine l' → SameLines ls ls' → SameLines (l :: ls) (l' :: ls')

theorem sameLines_length : ∀ (L L' : List Str), SameLines L L' → L.length = L'.length := by
  intro L L' h
  induction h with
  | nil => rfl
  | cons l l' ls ls' _ _ ih => simp [ih]

theorem sameDocs_length : ∀ (ls ls' : List (Nat × Str)), SameDocs ls ls' → ls.length = ls'.length := by
  intro ls ls' h
  induction h with
  | nil => rfl
  | cons n l l' ls ls' _ _ ih => simp [ih]

theorem zip_same : ∀ (L L' : List Str), SameLines L L' → ∀ k,
    SameDocs (List.zip (List.range' k L.length) L) (List.zip (List.range' k L'.length) L') := by
  intro L L' h
  induction h with
  | nil => intro k; exact .nil
  | cons l l' ls ls' hp _ ih =>
    intro k
    simp only [List.length_cons, List.range'_succ, List.zip_cons_cons]
    exact .cons k l l' _ _ hp (ih (k + 1))

theorem numbered_same (L L' : List Str) (h : SameLines L L') : SameDocs (numbered L) (numbered L') := by
  unfold numbered
  rw [List.range_eq_range', List.range_eq_range']
  exact zip_same L L' h 0

theorem parseStr_same (fs : Fs) (src src' : Str) (ctx : Ctx) (h : SameLines (lines src) (lines src'))
    (hnm : NoMacroDef (numbered (lines src))) : parseStr fs src ctx = parseStr fs src' ctx := by
  unfold parseStr parseIter
  have hs := numbered_same _ _ h
  rw [sameDocs_length _ _ hs]
  rw [parseIterWith_same _ _ _ _ _ _ _ _ hs hnm (by decide)]

/-- **C14 at the level of the build**: a program without macro definitions may have any of its
    lines replaced by a line that parses to the same thing — other blanks, another comment or none,
    another spelling of a number, of a mnemonic, of a register — and builds to exactly the same
    result (images, sizes, messages, or the same error).  Which replacements parse to the same
    thing is what the whole-line theorems of this file, of `C14x` and of `C05pp` establish. -/
theorem build_same (fs : Fs) (src src' : Str) (h : SameLines (lines src) (lines src'))
    (hnm : NoMacroDef (numbered (lines src))) : buildStr fs src = buildStr fs src' := by
  unfold buildStr
  rw [parseStr_same fs src src' _ h hnm]

/-! non-vacuity: `  NOP \t; done` and `nop` parse alike (by the whole-line theorem), so a program may
    have the one where it has the other -/
example : parseLine ([' ', ' '] ++ (['N', 'O', 'P'] ++ ([' ', '\t'] ++ [';', ' ', 'x']))) =
    parseLine ([] ++ (['n', 'o', 'p'] ++ ([] ++ []))) := by
  have hb : ∀ w : Str, (∀ c ∈ w, c = ' ' ∨ c = '\t') → blanks w := by
    intro w hw c hc; rcases hw c hc with rfl | rfl <;> decide
  have h1 := bare_instruction_line [' ', ' '] ['N', 'O', 'P'] [' ', '\t'] [';', ' ', 'x'] (hb _ (by simp))
    ⟨'N', ['O', 'P'], rfl, by decide, by decide⟩ (hb _ (by simp)) (Or.inr ⟨Or.inl rfl, rfl⟩)
  have h2 := bare_instruction_line [] ['n', 'o', 'p'] [] [] (hb _ (by simp))
    ⟨'n', ['o', 'p'], rfl, by decide, by decide⟩ (hb _ (by simp)) (Or.inl rfl)
  unfold parseLine
  rw [h1, h2]
  have : lower ['N', 'O', 'P'] = lower ['n', 'o', 'p'] := by decide
  rw [this]

/-! ### … also in programs that define macros, outside the macro bodies -/

/-- does the line parse to the directive that opens / closes a macro definition -/
def opensMacro (l : Str) : Bool :=
  match parseLine l with
  | (some (.directiveLine _ d _), _) => d = .macro
  | _ => false

def closesMacro (l : Str) : Bool :=
  match parseLine l with
  | (some (.directiveLine _ d _), _) => d = .endmacro ∨ d = .endm
  | _ => false

/-- `SameM b ls ls'`: line for line the same parse; and from a line that opens a macro definition to
    the next line that closes one (`b` = we are in between) the same TEXT -/
inductive SameM : Bool → List (Nat × Str) → List (Nat × Str) → Prop
  | nil (b : Bool) : SameM b [] []
  | out (n : Nat) (l l' : Str) (ls ls' : List (Nat × Str)) :
      parseLine l = parseLine l' → SameM (opensMacro l) ls ls' → SameM false ((n, l) :: ls) ((n, l') :: ls')
  | within (n : Nat) (l : Str) (ls ls' : List (Nat × Str)) :
      SameM (!closesMacro l) ls ls' → SameM true ((n, l) :: ls) ((n, l) :: ls')

theorem sameM_parse : ∀ (b : Bool) (ls ls' : List (Nat × Str)), SameM b ls ls' → SameDocs ls ls' := by
  intro b ls ls' h
  induction h with
  | nil b => exact .nil
  | out n l l' ls ls' hp _ ih => exact .cons n l l' ls ls' hp ih
  | within n l ls ls' _ ih => exact .cons n l l ls ls' rfl ih

/-- the mode behind a delivered line: inside a macro definition if that line opens one -/
def TailMode (nx : Option (Nat × Str)) (b : Bool) : Prop := ∀ x, nx = some x → opensMacro x.2 = true → b = true

theorem tailMode_none (b : Bool) : TailMode none b := by intro x hx; simp at hx

/-- the macro body collector gives the same body on both sides when the texts are the same up to the
    closing line -/
theorem skipMacro_same : ∀ (ls ls' : List (Nat × Str)), SameM true ls ls' → ∀ (acc : List (Nat × Str)),
    (skipMacro acc ls).1 = (skipMacro acc ls').1 ∧
    SameLine (skipMacro acc ls).2.1 (skipMacro acc ls').2.1 ∧
    (∃ b, SameM b (skipMacro acc ls).2.2.1 (skipMacro acc ls').2.2.1 ∧ TailMode (skipMacro acc ls).2.1 b) ∧
    (skipMacro acc ls).2.2.2 = (skipMacro acc ls').2.2.2 := by
  intro ls
  induction ls with
  | nil =>
    intro ls' h acc
    cases h with
    | nil => exact ⟨rfl, trivial, ⟨true, .nil true, tailMode_none _⟩, rfl⟩
  | cons x xs ih =>
    intro ls' h acc
    cases h with
    | within n l _ xs' hrest =>
      unfold skipMacro
      split
      · rename_i lab d ops o heq
        have hcl : closesMacro l = decide (d = .endmacro ∨ d = .endm) := by
          unfold closesMacro; rw [heq]
        split
        · rename_i hd
          have : closesMacro l = true := by rw [hcl]; simpa using hd
          rw [this] at hrest
          simp only [Bool.not_true] at hrest
          cases hrest with
          | nil => exact ⟨rfl, trivial, ⟨false, .nil false, tailMode_none _⟩, rfl⟩
          | out n2 l2 l2' r r' hp2 hs2 =>
            refine ⟨rfl, ⟨rfl, hp2⟩, ⟨_, hs2, ?_⟩, rfl⟩
            intro x hx hopen; simp only [Option.some.injEq] at hx; subst hx; exact hopen
        · rename_i hd
          have : closesMacro l = false := by rw [hcl]; simpa using hd
          rw [this] at hrest
          exact ih xs' hrest _
      · exact ⟨rfl, trivial, ⟨true, .nil true, tailMode_none _⟩, rfl⟩
      · rename_i h1 h2
        have : closesMacro l = false := by
          unfold closesMacro
          split
          · rename_i lab d ops o heq; exact absurd heq (h1 lab d ops o)
          · rfl
        rw [this] at hrest
        exact ih xs' hrest _

theorem sameM_tail (b : Bool) (x x' : Nat × Str) (ls ls' : List (Nat × Str)) (h : SameM b (x :: ls) (x' :: ls')) :
    ∃ b', SameM b' ls ls' := by
  cases h with
  | out n l l' _ _ _ hs => exact ⟨_, hs⟩
  | within n l _ _ hs => exact ⟨_, hs⟩

theorem sameM_head (b : Bool) (x x' : Nat × Str) (ls ls' : List (Nat × Str)) (h : SameM b (x :: ls) (x' :: ls')) :
    x.1 = x'.1 ∧ parseLine x.2 = parseLine x'.2 := by
  cases h with
  | out n l l' _ _ hp _ => exact ⟨rfl, hp⟩
  | within n l _ _ _ => exact ⟨rfl, rfl⟩

theorem opens_not_closes (l : Str) (h : opensMacro l = true) : closesMacro l = false := by
  unfold opensMacro at h
  unfold closesMacro
  split at h
  · rename_i lab d ops o heq
    simp only [decide_eq_true_eq] at h
    subst h
    decide
  · simp at h

theorem sameM_tail_mode (b : Bool) (n n' : Nat) (l l' : Str) (ls ls' : List (Nat × Str))
    (h : SameM b ((n, l) :: ls) ((n', l') :: ls')) : ∃ b', SameM b' ls ls' ∧ (opensMacro l = true → b' = true) := by
  cases h with
  | out _ _ _ _ _ _ hs => exact ⟨_, hs, fun h => h⟩
  | within _ _ _ _ hs => exact ⟨_, hs, fun h => by rw [opens_not_closes l h]; rfl⟩

theorem skipCond_sameM (all : Bool) : ∀ (ls ls' : List (Nat × Str)) (b : Bool), SameM b ls ls' → ∀ (d : Nat),
    ∃ b', SameM b' (skipCond all d ls).2.2.1 (skipCond all d ls').2.2.1 ∧ TailMode (skipCond all d ls).1 b' := by
  intro ls
  induction ls with
  | nil =>
    intro ls' b h d
    cases h with
    | nil => exact ⟨b, .nil b, tailMode_none _⟩
  | cons x xs ih =>
    intro ls' b h d
    cases ls' with
    | nil => cases h
    | cons x' xs' =>
      obtain ⟨n, l⟩ := x
      obtain ⟨n', l'⟩ := x'
      obtain ⟨hn, hp⟩ := sameM_head b _ _ _ _ h
      obtain ⟨bt, ht, _⟩ := sameM_tail_mode b _ _ _ _ _ _ h
      simp only at hn hp
      subst hn
      unfold skipCond
      rw [← hp]
      split
      · rename_i lab dd ops o heq
        split
        · exact ih xs' bt ht _
        · split
          · split
            · split
              · exact ih xs' bt ht _
              · split
                · rename_i helif
                  refine ⟨bt, ht, ?_⟩
                  intro y hy hopen
                  simp only [Option.some.injEq] at hy
                  subst hy
                  exfalso
                  unfold opensMacro at hopen
                  rw [heq] at hopen
                  simp only [decide_eq_true_eq] at hopen
                  rw [hopen] at helif
                  exact absurd helif (by decide)
                · cases xs with
                  | nil => cases ht with | nil => exact ⟨bt, .nil bt, tailMode_none _⟩
                  | cons y ys =>
                    cases xs' with
                    | nil => cases ht
                    | cons y' ys' =>
                      obtain ⟨ny, ly⟩ := y
                      obtain ⟨ny', ly'⟩ := y'
                      obtain ⟨b2, h2, hm2⟩ := sameM_tail_mode bt _ _ _ _ _ _ ht
                      refine ⟨b2, h2, ?_⟩
                      intro z hz hopen
                      simp only [Option.some.injEq] at hz
                      subst hz
                      exact hm2 hopen
            · split
              · exact ih xs' bt ht _
              · exact ih xs' bt ht _
          · exact ih xs' bt ht _
      · exact ⟨true, .nil true, tailMode_none _⟩
      · exact ih xs' bt ht _

theorem lineStep_endMacro_opens (inc : IncludeFn) (cur : Str) (incs : List Str) (st : PState) (idx : Nat) (t : Str) (re : Bool)
    (st' : PState) (incs' : List Str) (h : lineStep inc cur incs st idx t re = .ok (st', incs', .endMacro)) :
    opensMacro t = true := by
  cases ho : opensMacro t with
  | true => rfl
  | false =>
    exfalso
    refine lineStep_noEndMacro inc cur incs st idx t re ?_ st' incs' .endMacro h rfl
    intro lab ops o hp
    unfold opensMacro at ho
    rw [hp] at ho
    simp at ho

/-- one round of the loop after the skipper has delivered related lines -/
theorem round_sameM (inc : IncludeFn) (cur : Str) (lf : Nat)
    (ih : ∀ incs st ni ls ls' b, SameM b ls ls' → (ni = .endMacro → b = true) →
      parseIterWith inc cur lf incs st ni ls = parseIterWith inc cur lf incs st ni ls')
    (incs : List Str) (st : PState) (nx nx' : Option (Nat × Str)) (re : Bool) (rest rest' : List (Nat × Str)) (o : Bool)
    (br : Bool) (hnx : SameLine nx nx') (hrest : SameM br rest rest') (hmode : TailMode nx br) :
    (match (st, nx, re, rest, o) with
      | (_, _, _, _, true) => Out.oof
      | (st, none, _, _, false) => Out.ok (st, incs)
      | (st, some (idx, text), redelivered, rest, false) =>
        match lineStep inc cur incs st idx text redelivered with
        | .ok (st', incs', ni') => parseIterWith inc cur lf incs' st' ni' rest
        | .error e => .error e
        | .panic s => .panic s
        | .oof => .oof) =
    (match (st, nx', re, rest', o) with
      | (_, _, _, _, true) => Out.oof
      | (st, none, _, _, false) => Out.ok (st, incs)
      | (st, some (idx, text), redelivered, rest, false) =>
        match lineStep inc cur incs st idx text redelivered with
        | .ok (st', incs', ni') => parseIterWith inc cur lf incs' st' ni' rest
        | .error e => .error e
        | .panic s => .panic s
        | .oof => .oof) := by
  cases o with
  | true => rfl
  | false =>
    cases nx with
    | none =>
      cases nx' with
      | none => rfl
      | some x' => exact absurd hnx (by simp [SameLine])
    | some x =>
      cases nx' with
      | none => exact absurd hnx (by obtain ⟨n, l⟩ := x; simp [SameLine])
      | some x' =>
        obtain ⟨n, l⟩ := x
        obtain ⟨n', l'⟩ := x'
        obtain ⟨hn, hp⟩ := hnx
        subst hn
        simp only
        rw [lineStep_same inc cur incs st n l l' re hp]
        cases hl : lineStep inc cur incs st n l' re with
        | ok v =>
          obtain ⟨st', incs', ni'⟩ := v
          simp only
          refine ih incs' st' ni' rest rest' br hrest ?_
          intro hni
          subst hni
          rw [← lineStep_same inc cur incs st n l l' re hp] at hl
          exact hmode (n, l) rfl (lineStep_endMacro_opens inc cur incs st n l re st' incs' hl)
        | error e => rfl
        | panic p => rfl
        | oof => rfl

theorem parseIterWith_sameM (inc : IncludeFn) (cur : Str) : ∀ (f : Nat) (incs : List Str) (st : PState) (ni : NextItem)
    (ls ls' : List (Nat × Str)) (b : Bool), SameM b ls ls' → (ni = .endMacro → b = true) →
      parseIterWith inc cur f incs st ni ls = parseIterWith inc cur f incs st ni ls' := by
  intro f
  induction f with
  | zero => intro incs st ni ls ls' b _ _; rfl
  | succ lf ih =>
    intro incs st ni ls ls' b hs hni
    simp only [parseIterWith]
    cases ni with
    | endFile => rfl
    | newLine =>
      cases ls with
      | nil => cases hs with | nil => rfl
      | cons x xs =>
        cases ls' with
        | nil => cases hs
        | cons x' xs' =>
          obtain ⟨n, l⟩ := x
          obtain ⟨n', l'⟩ := x'
          obtain ⟨hn, hp⟩ := sameM_head b _ _ _ _ hs
          obtain ⟨bt, ht, hm⟩ := sameM_tail_mode b _ _ _ _ _ _ hs
          simp only at hn hp
          subst hn
          simp only [skipStep]
          exact round_sameM inc cur lf ih incs st (some (n, l)) (some (n, l')) false xs xs' false bt ⟨rfl, hp⟩ ht (by
            intro y hy hopen
            simp only [Option.some.injEq] at hy
            subst hy
            exact hm hopen)
    | endIf =>
      simp only [skipStep]
      obtain ⟨h1, h2, _, h4⟩ := skipCond_same false ls ls' (sameM_parse b ls ls' hs) 0
      obtain ⟨br, h3, hmode⟩ := skipCond_sameM false ls ls' b hs 0
      generalize skipCond false 0 ls = A at h1 h2 h3 h4 hmode
      generalize skipCond false 0 ls' = B at h1 h2 h3 h4
      obtain ⟨a1, a2, a3, a4⟩ := A
      obtain ⟨b1, b2, b3, b4⟩ := B
      simp only at h1 h2 h3 h4 hmode
      subst h2; subst h4
      exact round_sameM inc cur lf ih incs st a1 b1 a2 a3 b3 a4 br h1 h3 hmode
    | endIfAll =>
      simp only [skipStep]
      obtain ⟨h1, h2, _, h4⟩ := skipCond_same true ls ls' (sameM_parse b ls ls' hs) 0
      obtain ⟨br, h3, hmode⟩ := skipCond_sameM true ls ls' b hs 0
      generalize skipCond true 0 ls = A at h1 h2 h3 h4 hmode
      generalize skipCond true 0 ls' = B at h1 h2 h3 h4
      obtain ⟨a1, a2, a3, a4⟩ := A
      obtain ⟨b1, b2, b3, b4⟩ := B
      simp only at h1 h2 h3 h4 hmode
      subst h2; subst h4
      exact round_sameM inc cur lf ih incs st a1 b1 a2 a3 b3 a4 br h1 h3 hmode
    | endMacro =>
      have hb : b = true := hni rfl
      subst hb
      simp only [skipStep]
      obtain ⟨h1, h2, ⟨br, h3, hmode⟩, h4⟩ := skipMacro_same ls ls' hs []
      generalize skipMacro [] ls = A at h1 h2 h3 h4 hmode
      generalize skipMacro [] ls' = B at h1 h2 h3 h4
      obtain ⟨a1, a2, a3, a4⟩ := A
      obtain ⟨b1, b2, b3, b4⟩ := B
      simp only at h1 h2 h3 h4 hmode
      subst h1; subst h4
      exact round_sameM inc cur lf ih incs _ a2 b2 false a3 b3 a4 br h2 h3 hmode

/-- two texts, line by line: each line parses alike, and from a line that opens a macro definition to
    the next line that closes one the lines are the same text -/
inductive SameLinesM : Bool → List Str → List Str → Prop
  | nil (b : Bool) : SameLinesM b [] []
  | out (l l' : Str) (ls ls' : List Str) : parseLine l = parseLine l' → SameLinesM (opensMacro l) ls ls' →
      SameLinesM false (l :: ls) (l' :: ls')
  | within (l : Str) (ls ls' : List Str) : SameLinesM (!closesMacro l) ls ls' → SameLinesM true (l :: ls) (l :: ls')

theorem zip_sameM : ∀ (b : Bool) (L L' : List Str), SameLinesM b L L' → ∀ k,
    SameM b (List.zip (List.range' k L.length) L) (List.zip (List.range' k L'.length) L') := by
  intro b L L' h
  induction h with
  | nil b => intro k; exact .nil b
  | out l l' ls ls' hp _ ih =>
    intro k
    simp only [List.length_cons, List.range'_succ, List.zip_cons_cons]
    exact .out k l l' _ _ hp (ih (k + 1))
  | within l ls ls' _ ih =>
    intro k
    simp only [List.length_cons, List.range'_succ, List.zip_cons_cons]
    exact .within k l _ _ (ih (k + 1))

theorem numbered_sameM (b : Bool) (L L' : List Str) (h : SameLinesM b L L') : SameM b (numbered L) (numbered L') := by
  unfold numbered
  rw [List.range_eq_range', List.range_eq_range']
  exact zip_sameM b L L' h 0

theorem parseStr_sameM (fs : Fs) (src src' : Str) (ctx : Ctx) (h : SameLinesM false (lines src) (lines src')) :
    parseStr fs src ctx = parseStr fs src' ctx := by
  unfold parseStr parseIter
  have hs := numbered_sameM false _ _ h
  rw [sameDocs_length _ _ (sameM_parse _ _ _ hs)]
  rw [parseIterWith_sameM _ _ _ _ _ _ _ _ false hs (by intro h; cases h)]

/-- **C14 at the level of the build, programs with macros included**: outside the macro bodies
    (from a line that opens a macro definition to the next line that closes one the text is kept
    as it is) any line may be replaced by a line that parses to the same thing, and `build_str`
    gives exactly the same result -/
theorem build_same_outside_macro_bodies (fs : Fs) (src src' : Str) (h : SameLinesM false (lines src) (lines src')) :
    buildStr fs src = buildStr fs src' := by
  unfold buildStr
  rw [parseStr_sameM fs src src' _ h]

end Avra.Props.C14
