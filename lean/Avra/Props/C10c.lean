/-
  C10, "labels may be referenced before they are defined": pass 1 runs over the whole segment
  before pass 2 starts, a binding once made is never lost or changed on the way (`label_binding_kept`),
  so the context pass 2 evaluates EVERY item in — also the items before the label — binds the
  label to the position pass 1 gave it (`label_bound_at_end`).
-/
import Avra.Props.C02b
import Avra.Props.C10
import Avra.Props.C03b
namespace Avra.Props.C10c
open Avra Avra.Model Avra.Props.C02 Avra.Props.C02b Avra.Props.C10

theorem alookup_ainsert_other {α : Type} (k k' : Str) (v : α) (m : List (Str × α)) (h : k' ≠ k) :
    alookup k (ainsert k' v m) = alookup k m := by
  unfold ainsert
  simp only [alookup]
  rw [if_neg h]
  induction m with
  | nil => rfl
  | cons p rest ih =>
    obtain ⟨pk, pv⟩ := p
    simp only [List.filter_cons]
    by_cases hp : pk = k'
    · subst hp
      simp only [ne_eq, not_true_eq_false, decide_false, Bool.false_eq_true, if_false, alookup]
      rw [if_neg h]; exact ih
    · simp only [ne_eq, hp, not_false_eq_true, decide_true, if_true, alookup]
      by_cases hk : pk = k
      · simp [hk]
      · simp only [hk, if_false]; exact ih

/-- a name that is bound as a label (under its lower-case form, as the parser delivers label names)
    exists for every later definition check -/
theorem bound_label_exists (ctx : Ctx) (name : Str) (v : SegT × Nat) (hlow : lower name = name)
    (h : alookup name ctx.labels = some v) : ctx.exist name = true := by
  unfold Ctx.exist Ctx.getExpr
  rw [hlow, h]
  cases alookup name ctx.defines <;> cases alookup name ctx.equs <;> cases alookup name ctx.sets <;>
    cases alookup name ctx.special <;> simp

/-- pass 1 never loses or changes a label binding once made -/
theorem label_binding_kept (t : SegT) (limit : Nat) (name : Str) (v : SegT × Nat) (hlow : lower name = name) :
    ∀ (items : List (Nat × Item)) (cur : Nat) (ctx : Ctx) (e : Nat) (its : List (Nat × Item)) (ctx' : Ctx),
    pass1Items t limit items cur ctx = .ok (e, its, ctx') →
    alookup name ctx.labels = some v → alookup name ctx'.labels = some v := by
  intro items
  induction items with
  | nil =>
    intro cur ctx e its ctx' h hb
    unfold pass1Items at h
    split at h
    · simp [noLineErr] at h
    · simp only [Out.ok.injEq, Prod.mk.injEq] at h; obtain ⟨_, _, rfl⟩ := h; exact hb
  | cons x rest ih =>
    obtain ⟨ln, it⟩ := x
    intro cur ctx e its ctx' h hb
    have viaCons : ∀ (y : Item) (cur' : Nat), consItem (ln, y) (pass1Items t limit rest cur' ctx) = .ok (e, its, ctx') →
        alookup name ctx'.labels = some v := by
      intro y cur' hc
      obtain ⟨o', ho⟩ := C12.consItem_ok _ _ _ _ _ hc
      exact ih _ _ _ _ _ ho hb
    unfold pass1Items at h
    repeat' split at h
    all_goals first
      | (simp [lineErr] at h; done)
      | (simp at h; done)
      | exact viaCons _ _ h
      | exact ih _ _ _ _ _ h hb
      | (rename_i nm hne
         refine ih _ _ _ _ _ h ?_
         have : nm ≠ name := by
           intro he; subst he
           exact hne (bound_label_exists ctx nm v hlow hb)
         simp only
         rw [alookup_ainsert_other name nm _ _ this]; exact hb)
      | skip


/-- **A label is bound for the whole of pass 2.**  Wherever the label stands in its segment, the
    context pass 1 ends with — the one pass 2 starts from, for every segment — binds it to the
    offset pass 1 had reached in front of it (`C02b.label_lands`: where the following item is
    emitted). -/
theorem label_bound_at_end (t : SegT) (limit : Nat) (pre post : List (Nat × Item)) (ln : Nat) (name : Str)
    (cur : Nat) (ctx : Ctx) (e : Nat) (its : List (Nat × Item)) (ctx' : Ctx) (hlow : lower name = name)
    (h : pass1Items t limit (pre ++ (ln, .label name) :: post) cur ctx = .ok (e, its, ctx')) :
    ∃ e1 its1 ctxA, pass1Items t limit pre cur ctx = .ok (e1, its1, ctxA) ∧
      alookup name ctx'.labels = some (t, e1 % 4294967296) := by
  obtain ⟨e1, its1, ctxA, its2, h1a, h1b, _⟩ := pass1Items_append t limit _ pre cur ctx e its ctx' h
  refine ⟨e1, its1, ctxA, h1a, ?_⟩
  unfold pass1Items at h1b
  split at h1b
  · simp [lineErr] at h1b
  · simp only at h1b
    split at h1b
    · simp [lineErr] at h1b
    · exact label_binding_kept t limit name _ hlow post e1 _ e its2 ctx' h1b (alookup_ainsert_same name _ _)

/-- **Forward (and backward) references.**  In any context that carries the labels pass 1 ended
    with, a reference to the label in any letter case — from an item in front of the label as well
    as from one behind it — evaluates to that position. -/
theorem reference_value (ctx2 : Ctx) (at_ : Nat) (name ref : Str) (seg : SegT) (pos : Nat)
    (hcase : lower ref = name)
    (hb : alookup name ctx2.labels = some (seg, pos))
    (hd : alookup ref ctx2.defines = none) (he : alookup name ctx2.equs = none)
    (hs : alookup name ctx2.sets = none) (hsp : alookup name ctx2.special = none)
    (hpc : name ≠ "pc".toList) :
    eval (Avra.Props.C03b.atPc ctx2 at_) (.ident ref) = .ok (pos : Int) := by
  subst hcase
  exact Avra.Props.C03b.label_operand ctx2 at_ ref seg pos hd he hs hsp hpc hb

end Avra.Props.C10c
