/-
  C05 — constant expressions evaluate with the documented operator semantics.

  Model: Avra.Model.Eval (`Expr::run`), Avra.Model.Peg (the `precedence!{}` grammar, table from Gen).
  Spec:  Avra.Spec.Eval (operator table on i64, textbook two's complement; precedence levels).
-/
import Avra.Lemmas.EvalBits
import Avra.Model.Peg
namespace Avra.Props.C05
open Avra Avra.Model Avra.Spec Avra.Lemmas

/-- the value a model result denotes (errors are "the build fails") -/
def toOpt : EvalRes → Option Int
  | .ok v => some v
  | _ => none

theorem tmod_range (a b : Int) (ha : inI64 a = true) (hb : inI64 b = true) : inI64 (Int.tmod a b) = true := by
  rw [inI64_iff] at *
  by_cases hb0 : b = 0
  · subst hb0; simp only [Int.tmod_zero]; exact ha
  · have h := Int.natAbs_tmod a b
    have hlt : (Int.tmod a b).natAbs < b.natAbs := by
      rw [h]; exact Nat.mod_lt _ (by omega)
    omega

/-- every binary operator of the model agrees with the documented table, on all i64 operands,
    and yields an i64 -/
theorem binEval_spec (op : BinOp) (a b : Int) (ha : inI64 a = true) (hb : inI64 b = true) :
    toOpt (binEval op a b) = binop op a b ∧ ∀ v, binEval op a b = .ok v → inI64 v = true := by
  have hab := ha; have hbb := hb
  rw [inI64_iff] at hab hbb
  cases op <;> simp only [binEval, binop, checked, fits_eq_inI64]
  case add => by_cases h : inI64 (a + b) = true <;> simp_all [toOpt]
  case sub => by_cases h : inI64 (a - b) = true <;> simp_all [toOpt]
  case mul => by_cases h : inI64 (a * b) = true <;> simp_all [toOpt]
  case div =>
    by_cases h0 : b = 0
    · simp [h0, toOpt]
    · by_cases h : inI64 (Int.tdiv a b) = true <;> simp_all [toOpt]
  case rem =>
    by_cases h0 : b = 0
    · simp [h0, toOpt]
    · have hm : i64Min = -two63 := by decide
      rw [hm]
      by_cases h1 : a = -two63 ∧ b = -1
      · simp [h0, h1, toOpt]
      · simp only [h0, h1, if_false, toOpt, true_and]
        intro v hv; injection hv with hv; subst hv; exact tmod_range a b ha hb
  case band =>
    rw [i64And_spec]
    refine ⟨rfl, fun v hv => ?_⟩
    injection hv with hv; subst hv
    exact s64_range _ (by have := Nat.and_lt_two_pow (u64 a) (y := u64 b) (n := 64) (by have := u64_lt b; simpa using this); simpa using this)
  case bor =>
    rw [i64Or_spec]
    refine ⟨rfl, fun v hv => ?_⟩
    injection hv with hv; subst hv
    exact s64_range _ (by have := Nat.or_lt_two_pow (x := u64 a) (y := u64 b) (n := 64) (by have := u64_lt a; simpa using this) (by have := u64_lt b; simpa using this); simpa using this)
  case bxor =>
    rw [i64Xor_spec]
    refine ⟨rfl, fun v hv => ?_⟩
    injection hv with hv; subst hv
    exact s64_range _ (by have := Nat.xor_lt_two_pow (x := u64 a) (y := u64 b) (n := 64) (by have := u64_lt a; simpa using this) (by have := u64_lt b; simpa using this); simpa using this)
  case shl =>
    by_cases h : b < 0 ∨ b > 63
    · have : ¬ (0 ≤ b ∧ b ≤ 63) := by omega
      simp [h, this, toOpt]
    · have h2 : (0 ≤ b ∧ b ≤ 63) := by omega
      simp only [h, h2, if_false, if_true, and_self, toOpt, i64Shl_spec, true_and]
      intro v hv; injection hv with hv; subst hv
      exact s64_range _ (by unfold two64; omega)
  case shr =>
    by_cases h : b < 0 ∨ b > 63
    · have : ¬ (0 ≤ b ∧ b ≤ 63) := by omega
      simp [h, this, toOpt]
    · have h2 : (0 ≤ b ∧ b ≤ 63) := by omega
      simp only [h, h2, if_false, if_true, and_self, toOpt, i64Shr_spec a _ ha, true_and]
      intro v hv; injection hv with hv; subst hv
      exact shr_range a _ ha
  all_goals (
    refine ⟨by simp [toOpt, b2i, bool01], fun v hv => ?_⟩
    injection hv with hv; subst hv
    rw [inI64_iff]; unfold b2i; split <;> omega)

theorem unEval_spec (op : UnOp) (a : Int) (ha : inI64 a = true) :
    toOpt (unEval op a) = unop op a ∧ ∀ v, unEval op a = .ok v → inI64 v = true := by
  have hab := ha
  rw [inI64_iff] at hab
  cases op <;> simp only [unEval, unop, checked, fits_eq_inI64]
  case minus => by_cases h : inI64 (-a) = true <;> simp_all [toOpt]
  case bnot =>
    rw [i64Not_spec a ha]
    refine ⟨rfl, fun v hv => ?_⟩
    injection hv with hv; subst hv
    rw [inI64_iff]; omega
  case lnot =>
    refine ⟨by simp [toOpt, b2i, bool01], fun v hv => ?_⟩
    injection hv with hv; subst hv
    rw [inI64_iff]; unfold b2i; split <;> omega

theorem log2_eq (f : Nat) : ∀ n, log2Loop f n = bitLength f n := by
  induction f with
  | zero => intro n; rfl
  | succ f ih =>
    intro n
    simp only [log2Loop, bitLength]
    by_cases h : n = 0
    · simp [h]
    · have : n > 0 := Nat.pos_of_ne_zero h
      simp [h, this, ih]

theorem bitLength_le (f : Nat) : ∀ n, bitLength f n ≤ f := by
  induction f with
  | zero => intro n; simp [bitLength]
  | succ f ih =>
    intro n
    simp only [bitLength]
    split
    · omega
    · have := ih (n / 2); omega

/-- the byte/word functions select the documented bits, for every i64 argument -/
theorem funcEval_spec (name : Str) (v : Int) (hv : inI64 v = true) :
    toOpt (funcEval name v) = Spec.func name v ∧ ∀ r, funcEval name v = .ok r → inI64 r = true := by
  have hvv := hv
  rw [inI64_iff] at hvv
  unfold funcEval Spec.func bitsOf
  have hu : asU 64 v = u64 v := by unfold asU u64 two64; rfl
  simp only [hu]
  have hlt := u64_lt v
  split
  · refine ⟨by simp [toOpt], fun r hr => ?_⟩
    injection hr with hr; subst hr; rw [inI64_iff]; omega
  split
  · refine ⟨by first | (simp [toOpt]; done) | (simp [toOpt]; omega), fun r hr => ?_⟩
    injection hr with hr; subst hr; rw [inI64_iff]; omega
  split
  · refine ⟨by first | (simp [toOpt]; done) | (simp [toOpt]; omega), fun r hr => ?_⟩
    injection hr with hr; subst hr; rw [inI64_iff]; omega
  split
  · refine ⟨by first | (simp [toOpt]; done) | (simp [toOpt]; omega), fun r hr => ?_⟩
    injection hr with hr; subst hr; rw [inI64_iff]; omega
  split
  · refine ⟨by simp [toOpt], fun r hr => ?_⟩
    injection hr with hr; subst hr; rw [inI64_iff]; omega
  split
  · refine ⟨by first | (simp [toOpt]; done) | (simp [toOpt]; omega), fun r hr => ?_⟩
    injection hr with hr; subst hr; rw [inI64_iff]; omega
  split
  · refine ⟨by first | (simp [toOpt]; done) | (simp [toOpt]; omega), fun r hr => ?_⟩
    injection hr with hr; subst hr; rw [inI64_iff]; omega
  split
  · by_cases h : v < 0 ∨ v > 63
    · have : ¬ (0 ≤ v ∧ v ≤ 63) := by omega
      simp [h, this, toOpt]
    · have h2 : (0 ≤ v ∧ v ≤ 63) := by omega
      have hs := i64Shl_spec 1 v.toNat
      have hu1 : u64 1 = 1 := by decide
      rw [hu1, Nat.one_mul] at hs
      simp only [h, h2, if_false, if_true, and_self, toOpt, hs, true_and]
      intro r hr; injection hr with hr; subst hr
      exact s64_range _ (by unfold two64; omega)
  split
  · rw [log2_eq]
    refine ⟨by simp [toOpt], fun r hr => ?_⟩
    injection hr with hr; subst hr; rw [inI64_iff]
    have := bitLength_le 65 (u64 v); omega
  · simp [toOpt]

/-- literals of an expression fit an i64 (the grammar's `{? }` actions guarantee it) -/
def constsOk : Expr → Prop
  | .ident _ => True
  | .const v => inI64 v = true
  | .func n a => constsOk n ∧ constsOk a
  | .bin _ l r => constsOk l ∧ constsOk r
  | .un _ e => constsOk e

/-- C05, evaluation: for EVERY expression tree (all 18 binary and 3 unary operators, the
    byte/word functions, any nesting) and every assignment of i64 values (or failure) to its
    symbols, the model of `Expr::run` yields exactly the value the documented operator table
    defines, and fails exactly when the table says the build must fail (division/remainder by
    zero, arithmetic overflow, shift count outside 0..63, unknown function, failing symbol). -/
theorem eval_eq_spec (sym : Str → EvalRes) (hs : ∀ n v, sym n = .ok v → inI64 v = true) :
    ∀ e : Expr, constsOk e →
      toOpt (evalWith sym e) = Spec.eval (fun n => toOpt (sym n)) e ∧
      ∀ v, evalWith sym e = .ok v → inI64 v = true := by
  intro e
  induction e with
  | ident n => intro _; exact ⟨rfl, fun v hv => hs n v hv⟩
  | const v => intro hc; exact ⟨rfl, fun v' hv => by simp only [evalWith] at hv; injection hv with hv; subst hv; exact hc⟩
  | func nm arg ihn iha =>
    intro hc
    cases nm with
    | ident name =>
      obtain ⟨h1, h2⟩ := iha hc.2
      simp only [evalWith, Spec.eval]
      cases hev : evalWith sym arg with
      | ok v =>
        rw [hev] at h1 h2
        have h1' : Spec.eval (fun n => toOpt (sym n)) arg = some v := h1.symm
        rw [h1']
        exact funcEval_spec (lower name) v (h2 v rfl)
      | err x =>
        rw [hev] at h1
        have h1' : Spec.eval (fun n => toOpt (sym n)) arg = none := h1.symm
        rw [h1']; exact ⟨rfl, fun v hv => by cases hv⟩
      | oof =>
        rw [hev] at h1
        have h1' : Spec.eval (fun n => toOpt (sym n)) arg = none := h1.symm
        rw [h1']; exact ⟨rfl, fun v hv => by cases hv⟩
    | const v => exact ⟨rfl, fun v hv => by cases hv⟩
    | func a b => exact ⟨rfl, fun v hv => by cases hv⟩
    | bin o a b => exact ⟨rfl, fun v hv => by cases hv⟩
    | un o a => exact ⟨rfl, fun v hv => by cases hv⟩
  | bin op l r ihl ihr =>
    intro hc
    obtain ⟨hl1, hl2⟩ := ihl hc.1
    obtain ⟨hr1, hr2⟩ := ihr hc.2
    simp only [evalWith, Spec.eval]
    cases hel : evalWith sym l with
    | ok lv =>
      rw [hel] at hl1 hl2
      have hl1' : Spec.eval (fun n => toOpt (sym n)) l = some lv := hl1.symm
      rw [hl1']
      cases her : evalWith sym r with
      | ok rv =>
        rw [her] at hr1 hr2
        have hr1' : Spec.eval (fun n => toOpt (sym n)) r = some rv := hr1.symm
        rw [hr1']
        exact binEval_spec op lv rv (hl2 lv rfl) (hr2 rv rfl)
      | err x =>
        rw [her] at hr1
        have hr1' : Spec.eval (fun n => toOpt (sym n)) r = none := hr1.symm
        rw [hr1']; exact ⟨rfl, fun v hv => by cases hv⟩
      | oof =>
        rw [her] at hr1
        have hr1' : Spec.eval (fun n => toOpt (sym n)) r = none := hr1.symm
        rw [hr1']; exact ⟨rfl, fun v hv => by cases hv⟩
    | err x =>
      rw [hel] at hl1
      have hl1' : Spec.eval (fun n => toOpt (sym n)) l = none := hl1.symm
      rw [hl1']
      exact ⟨by cases Spec.eval (fun n => toOpt (sym n)) r <;> rfl, fun v hv => by cases hv⟩
    | oof =>
      rw [hel] at hl1
      have hl1' : Spec.eval (fun n => toOpt (sym n)) l = none := hl1.symm
      rw [hl1']
      exact ⟨by cases Spec.eval (fun n => toOpt (sym n)) r <;> rfl, fun v hv => by cases hv⟩
  | un op e ih =>
    intro hc
    obtain ⟨h1, h2⟩ := ih hc
    simp only [evalWith, Spec.eval]
    cases hev : evalWith sym e with
    | ok v =>
      rw [hev] at h1 h2
      have h1' : Spec.eval (fun n => toOpt (sym n)) e = some v := h1.symm
      rw [h1']
      exact unEval_spec op v (h2 v rfl)
    | err x =>
      rw [hev] at h1
      have h1' : Spec.eval (fun n => toOpt (sym n)) e = none := h1.symm
      rw [h1']; exact ⟨rfl, fun v hv => by cases hv⟩
    | oof =>
      rw [hev] at h1
      have h1' : Spec.eval (fun n => toOpt (sym n)) e = none := h1.symm
      rw [h1']; exact ⟨rfl, fun v hv => by cases hv⟩

theorem funcEval_ne_oof (n : Str) (v : Int) : funcEval n v ≠ .oof := by
  unfold funcEval
  repeat' split
  all_goals (intro h; cases h)

/-- the evaluator never runs out of anything: its results are values or errors -/
theorem evalWith_total (sym : Str → EvalRes) (hs : ∀ n, sym n ≠ .oof) : ∀ e, evalWith sym e ≠ .oof := by
  intro e
  induction e with
  | ident n => exact hs n
  | const v => simp [evalWith]
  | func nm arg _ iha =>
    cases nm <;> simp only [evalWith] <;> try (intro h; cases h)
    cases h : evalWith sym arg with
    | ok v => exact funcEval_ne_oof _ _
    | err x => simp
    | oof => exact absurd h iha
  | bin op l r ihl ihr =>
    simp only [evalWith]
    cases hl : evalWith sym l with
    | ok lv =>
      cases hr : evalWith sym r with
      | ok rv =>
        simp only
        cases op <;> simp only [binEval, checked] <;> (repeat' split) <;> (intro h; cases h)
      | err x => simp
      | oof => exact absurd hr ihr
    | err x => simp
    | oof => exact absurd hl ihl
  | un op e ih =>
    simp only [evalWith]
    cases h : evalWith sym e with
    | ok v => simp only; cases op <;> simp only [unEval, checked] <;> (repeat' split) <;> (intro h; cases h)
    | err x => simp
    | oof => exact absurd h ih

/-! ### the operator table of the grammar (Gen obligation) -/

/-- the `precedence!{}` block extracted from document.rs is the documented table: every binary
    operator appears exactly once, as a left-associative infix operator whose textual level
    order is the documented one (looser operators on earlier levels); the three unary operators
    are prefix operators on a level tighter than every binary operator and may be nested; the
    atom alternatives are the five the model implements. -/
def opTableOk : Bool :=
  -- every binary operator: exactly one entry, infixL, right text, level order = documented
  (BinOp.all.all fun b =>
    (Peg.infixOps.filter fun e => e.2.1 == b).length == 1 &&
    Peg.infixOps.any fun e => e.2.1 == b && e.1 == b.text && e.2.2.2 == e.2.2.1 + 1) &&
  (BinOp.all.all fun b1 => BinOp.all.all fun b2 =>
    Peg.infixOps.all fun e1 => Peg.infixOps.all fun e2 =>
      !(e1.2.1 == b1 && e2.2.1 == b2) ||
        (decide (Spec.level b1 < Spec.level b2) == decide (e1.2.2.1 < e2.2.2.1))) &&
  Peg.infixOps.length == 18 &&
  -- unary operators: prefix, operand at their own level (nestable), tighter than every infix level
  (UnOp.all.all fun u =>
    Peg.prefixOps.any fun e => e.2.1 == u && e.1 == u.text &&
      Peg.infixOps.all fun i => decide (i.2.2.1 < e.2.2)) &&
  Peg.prefixOps.length == 3 &&
  Gen.atomsAsModelled

theorem op_table_documented : opTableOk = true := by decide +kernel

/-! non-vacuity / sanity -/
example : toOpt (eval { device := default } (.bin .ne (.const 3) (.const 2))) = some 1 := by decide
example : Spec.eval (fun _ => none) (.un .bnot (.const 0)) = some (-1) := by decide
example : Spec.eval (fun _ => none) (.bin .shl (.const 1) (.const 64)) = none := by decide
example : Spec.eval (fun _ => none) (.bin .div (.const (-9223372036854775808)) (.const (-1))) = none := by decide

end Avra.Props.C05
