/-
  C06 — data directives emit exactly the bytes written, little-endian, exact width.
-/
import Avra.Model.Build
import Avra.Spec.Data
namespace Avra.Props.C06
open Avra Avra.Model Avra.Spec

/-- what an operand denotes in a context (evaluation by the model's evaluator, whose agreement
    with the operator table is C05) -/
def denote (c : Ctx) : Operand → DataOp
  | .s s => .str (utf8 s)
  | .e e =>
    match eval c e with
    | .ok v => .val v
    | _ => .bad

def toOpt : DataRes → Option (List Nat)
  | .ok bs => some bs
  | _ => none

theorem leBytes_byte (w : Nat) : ∀ (x : Nat), leBytes w x = (List.range w).map fun i => x / 256 ^ i % 256 := by
  induction w with
  | zero => intro x; rfl
  | succ w ih =>
    intro x
    simp only [leBytes, ih, List.range_succ_eq_map, List.map_cons, List.map_map]
    congr 1
    · simp
    · apply List.map_congr_left
      intro i _
      simp only [Function.comp, Nat.pow_succ]
      rw [Nat.div_div_eq_div_mul, Nat.mul_comm]

/-- the model's little-endian bytes of `v as uN` are the bytes of the two's complement
    representation, for each width the directives use -/
theorem le1 (v : Int) : leBytes 1 (asU 8 v) = leInt 1 v := by
  simp [leBytes, leInt, byteOf, asU, List.range_succ_eq_map]; omega
theorem le2 (v : Int) : leBytes 2 (asU 16 v) = leInt 2 v := by
  simp [leBytes, leInt, byteOf, asU, List.range_succ_eq_map]; omega
theorem le4 (v : Int) : leBytes 4 (asU 32 v) = leInt 4 v := by
  simp [leBytes, leInt, byteOf, asU, List.range_succ_eq_map]; omega
theorem le8 (v : Int) : leBytes 8 (asU 64 v) = leInt 8 v := by
  simp [leBytes, leInt, byteOf, asU, List.range_succ_eq_map]; omega

theorem leBytes_length (w : Nat) : ∀ x, (leBytes w x).length = w := by
  induction w with
  | zero => intro x; rfl
  | succ w ih => intro x; simp [leBytes, ih]

theorem fits1 (v : Int) : fitsWidth 1 v = decide (-128 ≤ v ∧ v ≤ 255) := by
  unfold fitsWidth
  have a : (2 : Int) ^ (8 * 1 - 1) = 128 := by decide
  have b : (2 : Int) ^ (8 * 1) = 256 := by decide
  simp only [a, b]; first | (simp; done) | (simp; omega)
theorem fits2 (v : Int) : fitsWidth 2 v = decide (-32768 ≤ v ∧ v ≤ 65535) := by
  unfold fitsWidth
  have a : (2 : Int) ^ (8 * 2 - 1) = 32768 := by decide
  have b : (2 : Int) ^ (8 * 2) = 65536 := by decide
  simp only [a, b]; first | (simp; done) | (simp; omega)
theorem fits4 (v : Int) : fitsWidth 4 v = decide (-2147483648 ≤ v ∧ v ≤ 4294967295) := by
  unfold fitsWidth
  have a : (2 : Int) ^ (8 * 4 - 1) = 2147483648 := by decide
  have b : (2 : Int) ^ (8 * 4) = 4294967296 := by decide
  simp only [a, b]; first | (simp; done) | (simp; omega)
theorem fits8 (v : Int) : fitsWidth 8 v = true := by unfold fitsWidth; simp

/-- one operand: the model emits exactly the bytes the spec prescribes, and fails exactly when
    the spec says the build must fail (value outside the element's signed/unsigned range, string
    in a word directive, operand that does not evaluate) -/
theorem operand_spec (c : Ctx) (dt : DataDefine) (o : Operand) :
    toOpt (operandBytes c dt o) = elemBytes dt (denote c o) := by
  cases o with
  | s s => cases dt <;> simp [operandBytes, denote, elemBytes, toOpt]
  | e e =>
    simp only [operandBytes, denote]
    cases h : eval c e with
    | err x => simp [toOpt, elemBytes]
    | oof => simp [toOpt, elemBytes]
    | ok v =>
      cases dt <;> simp only [elemBytes, widthOf]
      · simp only [fits1]
        by_cases hr : v > 255 ∨ v < -128
        · have : ¬ (-128 ≤ v ∧ v ≤ 255) := by omega
          simp [hr, this, toOpt]
        · have : (-128 ≤ v ∧ v ≤ 255) := by omega
          simp [hr, this, toOpt, le1]
      · simp only [fits2]
        by_cases hr : v > 65535 ∨ v < -32768
        · have : ¬ (-32768 ≤ v ∧ v ≤ 65535) := by omega
          simp [hr, this, toOpt]
        · have : (-32768 ≤ v ∧ v ≤ 65535) := by omega
          simp [hr, this, toOpt, le2]
      · simp only [fits4]
        by_cases hr : v > 4294967295 ∨ v < -2147483648
        · have : ¬ (-2147483648 ≤ v ∧ v ≤ 4294967295) := by omega
          simp [hr, this, toOpt]
        · have : (-2147483648 ≤ v ∧ v ≤ 4294967295) := by omega
          simp [hr, this, toOpt, le4]
      · simp [fits8, toOpt, le8]

/-- C06: for EVERY operand list (any length, any mix of expressions, symbols and strings), every
    element width and every context, the model of the data emission yields the operands' bytes in
    source order, little-endian, exact width — or fails when one operand must fail -/
theorem line_spec (c : Ctx) (dt : DataDefine) (ops : List Operand) :
    toOpt (dataBytes c dt ops) = lineBytes dt (ops.map (denote c)) := by
  induction ops with
  | nil => rfl
  | cons o more ih =>
    simp only [dataBytes, List.map_cons, lineBytes]
    rw [← operand_spec, ← ih]
    cases operandBytes c dt o <;> cases dataBytes c dt more <;> rfl

/-- pass 1 appends the constant 0 to a flash `.db` line of odd length: pass 2 then emits exactly
    one extra zero byte -/
theorem pad_byte (c : Ctx) (ops : List Operand) (bs : List Nat) (h : dataBytes c .db ops = .ok bs) :
    dataBytes c .db (ops ++ [.e (.const 0)]) = .ok (bs ++ [0]) := by
  induction ops generalizing bs with
  | nil =>
    simp only [dataBytes] at h; injection h with h; subst h
    simp [dataBytes, operandBytes, eval, evalWith, leBytes, asU]
  | cons o more ih =>
    simp only [List.cons_append, dataBytes] at h ⊢
    cases ho : operandBytes c .db o with
    | ok b =>
      rw [ho] at h
      cases hm : dataBytes c .db more with
      | ok bm =>
        rw [hm] at h; simp only at h; injection h with h; subst h
        rw [ih bm hm]; simp
      | err => rw [hm] at h; cases h
      | oof => rw [hm] at h; cases h
    | err => rw [ho] at h; cases h
    | oof => rw [ho] at h; cases h

/-- the size pass 1 books for a `.db` line equals the number of bytes pass 2 emits for it -/
theorem db_length (c : Ctx) (ops : List Operand) (bs : List Nat) (h : dataBytes c .db ops = .ok bs) :
    bs.length = actualLen ops := by
  unfold actualLen
  suffices ∀ a, a + bs.length = ops.foldl (fun a o => a + operandLen o) a by simpa using this 0
  induction ops generalizing bs with
  | nil => intro a; simp only [dataBytes] at h; injection h with h; subst h; simp
  | cons o more ih =>
    intro a
    simp only [dataBytes] at h
    cases ho : operandBytes c .db o with
    | ok b =>
      rw [ho] at h
      cases hm : dataBytes c .db more with
      | ok bm =>
        rw [hm] at h; simp only at h; injection h with h; subst h
        simp only [List.foldl_cons, List.length_append]
        rw [← ih bm hm (a + operandLen o)]
        have : b.length = operandLen o := by
          cases o with
          | s s => simp [operandBytes] at ho; subst ho; rfl
          | e e =>
            simp only [operandBytes] at ho
            cases he : eval c e with
            | ok v => rw [he] at ho; simp only at ho; split at ho <;> (first | (cases ho; done) | (cases ho; rw [leBytes_length]; rfl))
            | err x => rw [he] at ho; cases ho
            | oof => rw [he] at ho; cases ho
        omega
      | err => rw [hm] at h; cases h
      | oof => rw [hm] at h; cases h
    | err => rw [ho] at h; cases h
    | oof => rw [ho] at h; cases h

/-- … and for `.dw/.dd/.dq`: `width` bytes per operand -/
theorem word_length (c : Ctx) (dt : DataDefine) (hdt : dt ≠ .db) (ops : List Operand) (bs : List Nat)
    (h : dataBytes c dt ops = .ok bs) : bs.length = ops.length * widthOf dt := by
  induction ops generalizing bs with
  | nil => simp only [dataBytes] at h; injection h with h; subst h; simp
  | cons o more ih =>
    simp only [dataBytes] at h
    cases ho : operandBytes c dt o with
    | ok b =>
      rw [ho] at h
      cases hm : dataBytes c dt more with
      | ok bm =>
        rw [hm] at h; simp only at h; injection h with h; subst h
        have hb : b.length = widthOf dt := by
          cases o with
          | s s => cases dt <;> simp [operandBytes] at ho; exact absurd rfl hdt
          | e e =>
            simp only [operandBytes] at ho
            cases he : eval c e with
            | ok v =>
              rw [he] at ho
              cases dt <;> simp only at ho
              · exact absurd rfl hdt
              all_goals (first | (split at ho <;> (first | (cases ho; done) | (cases ho; rw [leBytes_length]; rfl))) | (injection ho with ho; subst ho; rw [leBytes_length]; rfl))
            | err x => rw [he] at ho; cases ho
            | oof => rw [he] at ho; cases ho
        simp only [List.length_append, List.length_cons, ih bm hm, hb]
        rw [Nat.add_mul]; omega
      | err => rw [hm] at h; cases h
      | oof => rw [hm] at h; cases h
    | err => rw [ho] at h; cases h
    | oof => rw [ho] at h; cases h

/-! non-vacuity -/
example : lineBytes .dw [.val (-1), .val 0x1234] = some [0xff, 0xff, 0x34, 0x12] := by decide
example : lineBytes .db [.val 256] = none := by decide
example : lineBytes .dd [.val (-2147483649)] = none := by decide
example : placedLine .code .db [.val 1, .str [0x61, 0x62]] = some [1, 0x61, 0x62, 0] := by decide

end Avra.Props.C06
