/-
  C17 — builds are deterministic and independent of each other.

  In the model a build is a FUNCTION of its inputs (source text or main path, file system,
  include directories): `buildStr fs src`, `buildFile fs path dirs`.  There is no process state
  for a build to read or leave behind, and the symbol tables are used through look-ups only.
  What ties this to the Rust code is (a) the inventory theorems below — re-extracted from the
  tree on every run: the only process-wide item is the immutable DEVICES table, no unordered
  container is ever iterated, the only ambient input is the working directory — and (b) the
  check's run: every case built alone in a fresh process, in many orders in one process, and
  concurrently, with the full error text compared.
-/
import Avra.Model.Build
import Avra.Gen.Globals
namespace Avra.Props.C17
open Avra Avra.Model

/-! ### inventory of the tree (Gen obligations) -/

/-- process-wide state of the crate: exactly one item (the immutable `DEVICES` table behind a
    `LazyLock`); no `static mut`, `thread_local!`, lock, atomic, once-cell or `unsafe` -/
theorem global_state_pinned : Gen.globalStateDigest = 362406626888142898 ∧ Gen.globalState.length = 1 := by decide

/-- no HashMap / HashSet is iterated anywhere outside the unit tests: hash order cannot reach a
    result or an error text -/
theorem no_unordered_iteration : Gen.unorderedIterationsDigest = 357258652861774496 ∧ Gen.unorderedIterations.length = 0 := by decide

/-- ambient inputs (time, randomness, environment, hasher state, threads, user directories): the
    working directory read by `parse_str`, and the user's configuration directory — which only
    the command-line tool (`main.rs`, through `utility::get_standard_includes`) and `build.rs`
    consult; the library's build functions take their include directories as an argument -/
theorem ambient_inputs_pinned : Gen.ambientInputsDigest = 57165076209465547 ∧ Gen.ambientInputs.length = 7 := by decide

/-! ### the model: a build starts from nothing and depends on nothing else -/

/-- every build starts from the same empty context (a fresh `CommonContext::new()`): no symbol,
    alias, flag, label, and the default device -/
theorem fresh_context : initCtx.defines = [] ∧ initCtx.equs = [] ∧ initCtx.labels = [] ∧ initCtx.defs = [] ∧
    initCtx.sets = [] ∧ initCtx.special = [] ∧ initCtx.device = defaultDevice := ⟨rfl, rfl, rfl, rfl, rfl, rfl, rfl⟩

/-- a request to the library -/
inductive Req
  | str (src : Str)
  | file (path : Str) (dirs : List Str)

def serve (fs : Fs) : Req → Out BuildResult
  | .str src => buildStr fs src
  | .file p ds => buildFile fs p ds

/-- a process serving requests one after the other -/
def serveAll (fs : Fs) (rs : List Req) : List (Out BuildResult) := rs.map (serve fs)

/-- whatever was built before and whatever is built afterwards, a request gets the answer it
    gets alone (by construction of the model: `serve` has no state argument — that the Rust
    functions behave like it is what the run checks) -/
theorem history_independent (fs : Fs) (before after : List Req) (r : Req) :
    (serveAll fs (before ++ r :: after))[before.length]? = some (serve fs r) := by
  simp [serveAll]

/-- any reordering of the requests (any interleaving of threads, seen as the order in which the
    builds complete) yields the same answers, reordered the same way -/
theorem order_independent (fs : Fs) (rs rs' : List Req) (h : rs.Perm rs') :
    (serveAll fs rs).Perm (serveAll fs rs') := h.map _

/-! ### hash order: the symbol tables are association lists used through look-ups only -/

/-- look-up does not depend on the order in which a table stores its entries (for tables with
    one entry per key, which is what `ainsert` maintains) -/
theorem lookup_order_independent {α : Type} (k : Str) : ∀ (l1 l2 : List (Str × α)), l1.Perm l2 →
    (l1.map (·.1)).Nodup → alookup k l1 = alookup k l2 := by
  intro l1 l2 h
  induction h with
  | nil => intro _; rfl
  | cons x _ ih =>
    intro hn
    obtain ⟨kx, vx⟩ := x
    simp only [List.map_cons, List.nodup_cons] at hn
    simp only [alookup]
    split
    · rfl
    · exact ih hn.2
  | swap x y l =>
    intro hn
    obtain ⟨kx, vx⟩ := x
    obtain ⟨ky, vy⟩ := y
    simp only [List.map_cons, List.nodup_cons, List.mem_cons, not_or] at hn
    simp only [alookup]
    by_cases h1 : ky = k <;> by_cases h2 : kx = k <;> simp [h1, h2]
    exact absurd (h1.trans h2.symm) (fun e => hn.1.1 e)
  | trans h1 _ ih1 ih2 =>
    intro hn
    rw [ih1 hn]
    exact ih2 ((h1.map (·.1)).nodup_iff.mp hn)

/-- `ainsert` keeps one entry per key -/
theorem ainsert_nodup {α : Type} (k : Str) (v : α) (m : List (Str × α)) (h : (m.map (·.1)).Nodup) :
    ((ainsert k v m).map (·.1)).Nodup := by
  unfold ainsert
  simp only [List.map_cons, List.nodup_cons]
  constructor
  · intro hm
    simp only [List.mem_map, List.mem_filter] at hm
    obtain ⟨p, ⟨_, hp⟩, he⟩ := hm
    simp at hp
    exact hp he
  · exact (List.Sublist.map _ List.filter_sublist).nodup h

end Avra.Props.C17
