/-
  Per-mnemonic encoding lemmas (text produced once by tools/mk_enc_props.py, maintained as source).
  For every mnemonic: the opcode/length row extracted from the code (Gen.infoTable) is the ISA's,
  the arm's bit packing equals the ISA pattern on its WHOLE finite operand table (kernel
  evaluation, `decide +kernel` over `allIn`), hence — by the family lemmas, for all operand lists
  and all i64 values — model words = ISA encoding of what the legality spec says.
-/
import Avra.Props.EncDefs
namespace Avra.Props.Enc
open Avra Avra.Model Avra.Isa Avra.Lemmas
set_option maxRecDepth 1000000

theorem info_add (b : Bool) : info b .add = some (1, 0x0c00) := by cases b <;> decide

theorem pack_add : ∀ d r, d < 32 → r < 32 → packRR 0x0c00 d r = word (rrPat .add) [(fld!"d", d), (fld!"r", r)] := by
  have h := allIn2 (fun (d r : Nat) => decide (packRR 0x0c00 d r = word (rrPat .add) [(fld!"d", d), (fld!"r", r)])) 5 5 (by decide +kernel)
  intro d r hd hr; simpa using h d r hd hr

theorem enc_add (b : Bool) (args : List AArg) (addr : Nat) (hr : regsOk args) :
    mWords b .add args addr = sWords b .add args addr := by
  unfold mWords sWords
  rw [info_add b]
  exact with_arity _ _ _ _ _ (fam_rr 0x0c00 .add pack_add args hr) (fun h => by have := sRR_len h; simp [allowedArgs, this])

theorem info_adc (b : Bool) : info b .adc = some (1, 0x1c00) := by cases b <;> decide

theorem pack_adc : ∀ d r, d < 32 → r < 32 → packRR 0x1c00 d r = word (rrPat .adc) [(fld!"d", d), (fld!"r", r)] := by
  have h := allIn2 (fun (d r : Nat) => decide (packRR 0x1c00 d r = word (rrPat .adc) [(fld!"d", d), (fld!"r", r)])) 5 5 (by decide +kernel)
  intro d r hd hr; simpa using h d r hd hr

theorem enc_adc (b : Bool) (args : List AArg) (addr : Nat) (hr : regsOk args) :
    mWords b .adc args addr = sWords b .adc args addr := by
  unfold mWords sWords
  rw [info_adc b]
  exact with_arity _ _ _ _ _ (fam_rr 0x1c00 .adc pack_adc args hr) (fun h => by have := sRR_len h; simp [allowedArgs, this])

theorem info_sub (b : Bool) : info b .sub = some (1, 0x1800) := by cases b <;> decide

theorem pack_sub : ∀ d r, d < 32 → r < 32 → packRR 0x1800 d r = word (rrPat .sub) [(fld!"d", d), (fld!"r", r)] := by
  have h := allIn2 (fun (d r : Nat) => decide (packRR 0x1800 d r = word (rrPat .sub) [(fld!"d", d), (fld!"r", r)])) 5 5 (by decide +kernel)
  intro d r hd hr; simpa using h d r hd hr

theorem enc_sub (b : Bool) (args : List AArg) (addr : Nat) (hr : regsOk args) :
    mWords b .sub args addr = sWords b .sub args addr := by
  unfold mWords sWords
  rw [info_sub b]
  exact with_arity _ _ _ _ _ (fam_rr 0x1800 .sub pack_sub args hr) (fun h => by have := sRR_len h; simp [allowedArgs, this])

theorem info_sbc (b : Bool) : info b .sbc = some (1, 0x0800) := by cases b <;> decide

theorem pack_sbc : ∀ d r, d < 32 → r < 32 → packRR 0x0800 d r = word (rrPat .sbc) [(fld!"d", d), (fld!"r", r)] := by
  have h := allIn2 (fun (d r : Nat) => decide (packRR 0x0800 d r = word (rrPat .sbc) [(fld!"d", d), (fld!"r", r)])) 5 5 (by decide +kernel)
  intro d r hd hr; simpa using h d r hd hr

theorem enc_sbc (b : Bool) (args : List AArg) (addr : Nat) (hr : regsOk args) :
    mWords b .sbc args addr = sWords b .sbc args addr := by
  unfold mWords sWords
  rw [info_sbc b]
  exact with_arity _ _ _ _ _ (fam_rr 0x0800 .sbc pack_sbc args hr) (fun h => by have := sRR_len h; simp [allowedArgs, this])

theorem info_and (b : Bool) : info b .and = some (1, 0x2000) := by cases b <;> decide

theorem pack_and : ∀ d r, d < 32 → r < 32 → packRR 0x2000 d r = word (rrPat .and) [(fld!"d", d), (fld!"r", r)] := by
  have h := allIn2 (fun (d r : Nat) => decide (packRR 0x2000 d r = word (rrPat .and) [(fld!"d", d), (fld!"r", r)])) 5 5 (by decide +kernel)
  intro d r hd hr; simpa using h d r hd hr

theorem enc_and (b : Bool) (args : List AArg) (addr : Nat) (hr : regsOk args) :
    mWords b .and args addr = sWords b .and args addr := by
  unfold mWords sWords
  rw [info_and b]
  exact with_arity _ _ _ _ _ (fam_rr 0x2000 .and pack_and args hr) (fun h => by have := sRR_len h; simp [allowedArgs, this])

theorem info_or (b : Bool) : info b .or = some (1, 0x2800) := by cases b <;> decide

theorem pack_or : ∀ d r, d < 32 → r < 32 → packRR 0x2800 d r = word (rrPat .or) [(fld!"d", d), (fld!"r", r)] := by
  have h := allIn2 (fun (d r : Nat) => decide (packRR 0x2800 d r = word (rrPat .or) [(fld!"d", d), (fld!"r", r)])) 5 5 (by decide +kernel)
  intro d r hd hr; simpa using h d r hd hr

theorem enc_or (b : Bool) (args : List AArg) (addr : Nat) (hr : regsOk args) :
    mWords b .or args addr = sWords b .or args addr := by
  unfold mWords sWords
  rw [info_or b]
  exact with_arity _ _ _ _ _ (fam_rr 0x2800 .or pack_or args hr) (fun h => by have := sRR_len h; simp [allowedArgs, this])

theorem info_eor (b : Bool) : info b .eor = some (1, 0x2400) := by cases b <;> decide

theorem pack_eor : ∀ d r, d < 32 → r < 32 → packRR 0x2400 d r = word (rrPat .eor) [(fld!"d", d), (fld!"r", r)] := by
  have h := allIn2 (fun (d r : Nat) => decide (packRR 0x2400 d r = word (rrPat .eor) [(fld!"d", d), (fld!"r", r)])) 5 5 (by decide +kernel)
  intro d r hd hr; simpa using h d r hd hr

theorem enc_eor (b : Bool) (args : List AArg) (addr : Nat) (hr : regsOk args) :
    mWords b .eor args addr = sWords b .eor args addr := by
  unfold mWords sWords
  rw [info_eor b]
  exact with_arity _ _ _ _ _ (fam_rr 0x2400 .eor pack_eor args hr) (fun h => by have := sRR_len h; simp [allowedArgs, this])

theorem info_cpse (b : Bool) : info b .cpse = some (1, 0x1000) := by cases b <;> decide

theorem pack_cpse : ∀ d r, d < 32 → r < 32 → packRR 0x1000 d r = word (rrPat .cpse) [(fld!"d", d), (fld!"r", r)] := by
  have h := allIn2 (fun (d r : Nat) => decide (packRR 0x1000 d r = word (rrPat .cpse) [(fld!"d", d), (fld!"r", r)])) 5 5 (by decide +kernel)
  intro d r hd hr; simpa using h d r hd hr

theorem enc_cpse (b : Bool) (args : List AArg) (addr : Nat) (hr : regsOk args) :
    mWords b .cpse args addr = sWords b .cpse args addr := by
  unfold mWords sWords
  rw [info_cpse b]
  exact with_arity _ _ _ _ _ (fam_rr 0x1000 .cpse pack_cpse args hr) (fun h => by have := sRR_len h; simp [allowedArgs, this])

theorem info_cp (b : Bool) : info b .cp = some (1, 0x1400) := by cases b <;> decide

theorem pack_cp : ∀ d r, d < 32 → r < 32 → packRR 0x1400 d r = word (rrPat .cp) [(fld!"d", d), (fld!"r", r)] := by
  have h := allIn2 (fun (d r : Nat) => decide (packRR 0x1400 d r = word (rrPat .cp) [(fld!"d", d), (fld!"r", r)])) 5 5 (by decide +kernel)
  intro d r hd hr; simpa using h d r hd hr

theorem enc_cp (b : Bool) (args : List AArg) (addr : Nat) (hr : regsOk args) :
    mWords b .cp args addr = sWords b .cp args addr := by
  unfold mWords sWords
  rw [info_cp b]
  exact with_arity _ _ _ _ _ (fam_rr 0x1400 .cp pack_cp args hr) (fun h => by have := sRR_len h; simp [allowedArgs, this])

theorem info_cpc (b : Bool) : info b .cpc = some (1, 0x0400) := by cases b <;> decide

theorem pack_cpc : ∀ d r, d < 32 → r < 32 → packRR 0x0400 d r = word (rrPat .cpc) [(fld!"d", d), (fld!"r", r)] := by
  have h := allIn2 (fun (d r : Nat) => decide (packRR 0x0400 d r = word (rrPat .cpc) [(fld!"d", d), (fld!"r", r)])) 5 5 (by decide +kernel)
  intro d r hd hr; simpa using h d r hd hr

theorem enc_cpc (b : Bool) (args : List AArg) (addr : Nat) (hr : regsOk args) :
    mWords b .cpc args addr = sWords b .cpc args addr := by
  unfold mWords sWords
  rw [info_cpc b]
  exact with_arity _ _ _ _ _ (fam_rr 0x0400 .cpc pack_cpc args hr) (fun h => by have := sRR_len h; simp [allowedArgs, this])

theorem info_mov (b : Bool) : info b .mov = some (1, 0x2c00) := by cases b <;> decide

theorem pack_mov : ∀ d r, d < 32 → r < 32 → packRR 0x2c00 d r = word (rrPat .mov) [(fld!"d", d), (fld!"r", r)] := by
  have h := allIn2 (fun (d r : Nat) => decide (packRR 0x2c00 d r = word (rrPat .mov) [(fld!"d", d), (fld!"r", r)])) 5 5 (by decide +kernel)
  intro d r hd hr; simpa using h d r hd hr

theorem enc_mov (b : Bool) (args : List AArg) (addr : Nat) (hr : regsOk args) :
    mWords b .mov args addr = sWords b .mov args addr := by
  unfold mWords sWords
  rw [info_mov b]
  exact with_arity _ _ _ _ _ (fam_rr 0x2c00 .mov pack_mov args hr) (fun h => by have := sRR_len h; simp [allowedArgs, this])

theorem info_mul (b : Bool) : info b .mul = some (1, 0x9c00) := by cases b <;> decide

theorem pack_mul : ∀ d r, d < 32 → r < 32 → packRR 0x9c00 d r = word (rrPat .mul) [(fld!"d", d), (fld!"r", r)] := by
  have h := allIn2 (fun (d r : Nat) => decide (packRR 0x9c00 d r = word (rrPat .mul) [(fld!"d", d), (fld!"r", r)])) 5 5 (by decide +kernel)
  intro d r hd hr; simpa using h d r hd hr

theorem enc_mul (b : Bool) (args : List AArg) (addr : Nat) (hr : regsOk args) :
    mWords b .mul args addr = sWords b .mul args addr := by
  unfold mWords sWords
  rw [info_mul b]
  exact with_arity _ _ _ _ _ (fam_rr 0x9c00 .mul pack_mul args hr) (fun h => by have := sRR_len h; simp [allowedArgs, this])

theorem info_tst (b : Bool) : info b .tst = some (1, 0x2000) := by cases b <;> decide

theorem enc_tst (b : Bool) (args : List AArg) (addr : Nat) (hr : regsOk args) :
    mWords b .tst args addr = sWords b .tst args addr := by
  unfold mWords sWords
  rw [info_tst b]
  exact with_arity _ _ _ _ _ (fam_same 0x2000 .and pack_and args hr) (fun h => by have := sRRsame_len h; simp [allowedArgs, this])

theorem info_clr (b : Bool) : info b .clr = some (1, 0x2400) := by cases b <;> decide

theorem enc_clr (b : Bool) (args : List AArg) (addr : Nat) (hr : regsOk args) :
    mWords b .clr args addr = sWords b .clr args addr := by
  unfold mWords sWords
  rw [info_clr b]
  exact with_arity _ _ _ _ _ (fam_same 0x2400 .eor pack_eor args hr) (fun h => by have := sRRsame_len h; simp [allowedArgs, this])

theorem info_lsl (b : Bool) : info b .lsl = some (1, 0x0c00) := by cases b <;> decide

theorem enc_lsl (b : Bool) (args : List AArg) (addr : Nat) (hr : regsOk args) :
    mWords b .lsl args addr = sWords b .lsl args addr := by
  unfold mWords sWords
  rw [info_lsl b]
  exact with_arity _ _ _ _ _ (fam_same 0x0c00 .add pack_add args hr) (fun h => by have := sRRsame_len h; simp [allowedArgs, this])

theorem info_rol (b : Bool) : info b .rol = some (1, 0x1c00) := by cases b <;> decide

theorem enc_rol (b : Bool) (args : List AArg) (addr : Nat) (hr : regsOk args) :
    mWords b .rol args addr = sWords b .rol args addr := by
  unfold mWords sWords
  rw [info_rol b]
  exact with_arity _ _ _ _ _ (fam_same 0x1c00 .adc pack_adc args hr) (fun h => by have := sRRsame_len h; simp [allowedArgs, this])

theorem info_sbrc (b : Bool) : info b .sbrc = some (1, 0xfc00) := by cases b <;> decide

theorem pack_sbrc : ∀ r b, r < 32 → b < 8 → [packOne 0xfc00 r ||| b] = encode ((Instr.sbr false) r b) := by
  have h := allIn2 (fun (r b : Nat) => decide ([packOne 0xfc00 r ||| b] = encode ((Instr.sbr false) r b))) 5 3 (by decide +kernel)
  intro r b hr hb; simpa using h r b hr hb

theorem enc_sbrc (b : Bool) (args : List AArg) (addr : Nat) (hr : regsOk args) :
    mWords b .sbrc args addr = sWords b .sbrc args addr := by
  unfold mWords sWords
  rw [info_sbrc b]
  exact with_arity _ _ _ _ _ (fam_regbit 0xfc00 (Instr.sbr false) pack_sbrc args hr) (fun h => by have := sRegBit_len h; simp [allowedArgs, this])

theorem info_sbrs (b : Bool) : info b .sbrs = some (1, 0xfe00) := by cases b <;> decide

theorem pack_sbrs : ∀ r b, r < 32 → b < 8 → [packOne 0xfe00 r ||| b] = encode ((Instr.sbr true) r b) := by
  have h := allIn2 (fun (r b : Nat) => decide ([packOne 0xfe00 r ||| b] = encode ((Instr.sbr true) r b))) 5 3 (by decide +kernel)
  intro r b hr hb; simpa using h r b hr hb

theorem enc_sbrs (b : Bool) (args : List AArg) (addr : Nat) (hr : regsOk args) :
    mWords b .sbrs args addr = sWords b .sbrs args addr := by
  unfold mWords sWords
  rw [info_sbrs b]
  exact with_arity _ _ _ _ _ (fam_regbit 0xfe00 (Instr.sbr true) pack_sbrs args hr) (fun h => by have := sRegBit_len h; simp [allowedArgs, this])

theorem info_bst (b : Bool) : info b .bst = some (1, 0xfa00) := by cases b <;> decide

theorem pack_bst : ∀ r b, r < 32 → b < 8 → [packOne 0xfa00 r ||| b] = encode ((Instr.bt false) r b) := by
  have h := allIn2 (fun (r b : Nat) => decide ([packOne 0xfa00 r ||| b] = encode ((Instr.bt false) r b))) 5 3 (by decide +kernel)
  intro r b hr hb; simpa using h r b hr hb

theorem enc_bst (b : Bool) (args : List AArg) (addr : Nat) (hr : regsOk args) :
    mWords b .bst args addr = sWords b .bst args addr := by
  unfold mWords sWords
  rw [info_bst b]
  exact with_arity _ _ _ _ _ (fam_regbit 0xfa00 (Instr.bt false) pack_bst args hr) (fun h => by have := sRegBit_len h; simp [allowedArgs, this])

theorem info_bld (b : Bool) : info b .bld = some (1, 0xf800) := by cases b <;> decide

theorem pack_bld : ∀ r b, r < 32 → b < 8 → [packOne 0xf800 r ||| b] = encode ((Instr.bt true) r b) := by
  have h := allIn2 (fun (r b : Nat) => decide ([packOne 0xf800 r ||| b] = encode ((Instr.bt true) r b))) 5 3 (by decide +kernel)
  intro r b hr hb; simpa using h r b hr hb

theorem enc_bld (b : Bool) (args : List AArg) (addr : Nat) (hr : regsOk args) :
    mWords b .bld args addr = sWords b .bld args addr := by
  unfold mWords sWords
  rw [info_bld b]
  exact with_arity _ _ _ _ _ (fam_regbit 0xf800 (Instr.bt true) pack_bld args hr) (fun h => by have := sRegBit_len h; simp [allowedArgs, this])

theorem info_sbi (b : Bool) : info b .sbi = some (1, 0x9a00) := by cases b <;> decide

theorem pack_sbi : ∀ a b, a < 32 → b < 8 → 0x9a00 ||| (a <<< 3) ||| b = word (iobPat .sbi) [(fld!"A", a), (fld!"b", b)] := by
  have h := allIn2 (fun (a b : Nat) => decide (0x9a00 ||| (a <<< 3) ||| b = word (iobPat .sbi) [(fld!"A", a), (fld!"b", b)])) 5 3 (by decide +kernel)
  intro a b ha hb; simpa using h a b ha hb

theorem enc_sbi (b : Bool) (args : List AArg) (addr : Nat) (hr : regsOk args) :
    mWords b .sbi args addr = sWords b .sbi args addr := by
  unfold mWords sWords
  rw [info_sbi b]
  exact with_arity _ _ _ _ _ (fam_iobit 0x9a00 .sbi pack_sbi args hr) (fun h => by have := sIoBit_len h; simp [allowedArgs, this])

theorem info_cbi (b : Bool) : info b .cbi = some (1, 0x9800) := by cases b <;> decide

theorem pack_cbi : ∀ a b, a < 32 → b < 8 → 0x9800 ||| (a <<< 3) ||| b = word (iobPat .cbi) [(fld!"A", a), (fld!"b", b)] := by
  have h := allIn2 (fun (a b : Nat) => decide (0x9800 ||| (a <<< 3) ||| b = word (iobPat .cbi) [(fld!"A", a), (fld!"b", b)])) 5 3 (by decide +kernel)
  intro a b ha hb; simpa using h a b ha hb

theorem enc_cbi (b : Bool) (args : List AArg) (addr : Nat) (hr : regsOk args) :
    mWords b .cbi args addr = sWords b .cbi args addr := by
  unfold mWords sWords
  rw [info_cbi b]
  exact with_arity _ _ _ _ _ (fam_iobit 0x9800 .cbi pack_cbi args hr) (fun h => by have := sIoBit_len h; simp [allowedArgs, this])

theorem info_sbis (b : Bool) : info b .sbis = some (1, 0x9b00) := by cases b <;> decide

theorem pack_sbis : ∀ a b, a < 32 → b < 8 → 0x9b00 ||| (a <<< 3) ||| b = word (iobPat .sbis) [(fld!"A", a), (fld!"b", b)] := by
  have h := allIn2 (fun (a b : Nat) => decide (0x9b00 ||| (a <<< 3) ||| b = word (iobPat .sbis) [(fld!"A", a), (fld!"b", b)])) 5 3 (by decide +kernel)
  intro a b ha hb; simpa using h a b ha hb

theorem enc_sbis (b : Bool) (args : List AArg) (addr : Nat) (hr : regsOk args) :
    mWords b .sbis args addr = sWords b .sbis args addr := by
  unfold mWords sWords
  rw [info_sbis b]
  exact with_arity _ _ _ _ _ (fam_iobit 0x9b00 .sbis pack_sbis args hr) (fun h => by have := sIoBit_len h; simp [allowedArgs, this])

theorem info_sbic (b : Bool) : info b .sbic = some (1, 0x9900) := by cases b <;> decide

theorem pack_sbic : ∀ a b, a < 32 → b < 8 → 0x9900 ||| (a <<< 3) ||| b = word (iobPat .sbic) [(fld!"A", a), (fld!"b", b)] := by
  have h := allIn2 (fun (a b : Nat) => decide (0x9900 ||| (a <<< 3) ||| b = word (iobPat .sbic) [(fld!"A", a), (fld!"b", b)])) 5 3 (by decide +kernel)
  intro a b ha hb; simpa using h a b ha hb

theorem enc_sbic (b : Bool) (args : List AArg) (addr : Nat) (hr : regsOk args) :
    mWords b .sbic args addr = sWords b .sbic args addr := by
  unfold mWords sWords
  rw [info_sbic b]
  exact with_arity _ _ _ _ _ (fam_iobit 0x9900 .sbic pack_sbic args hr) (fun h => by have := sIoBit_len h; simp [allowedArgs, this])

theorem info_bset (b : Bool) : info b .bset = some (1, 0x9408) := by cases b <;> decide

theorem pack_bset : ∀ s, s < 8 → 0x9408 ||| (s <<< 4) = word (if false then pat!"1001 0100 1sss 1000" else pat!"1001 0100 0sss 1000") [(fld!"s", s)] := by
  have h := allIn1 (fun (s : Nat) => decide (0x9408 ||| (s <<< 4) = word (if false then pat!"1001 0100 1sss 1000" else pat!"1001 0100 0sss 1000") [(fld!"s", s)])) 3 (by decide +kernel)
  intro s hs; simpa using h s hs

theorem enc_bset (b : Bool) (args : List AArg) (addr : Nat) (hr : regsOk args) :
    mWords b .bset args addr = sWords b .bset args addr := by
  unfold mWords sWords
  rw [info_bset b]
  exact with_arity _ _ _ _ _ (fam_flagv 0x9408 false pack_bset args hr) (fun h => by have := sFlagV_len h; simp [allowedArgs, this])

theorem info_bclr (b : Bool) : info b .bclr = some (1, 0x9488) := by cases b <;> decide

theorem pack_bclr : ∀ s, s < 8 → 0x9488 ||| (s <<< 4) = word (if true then pat!"1001 0100 1sss 1000" else pat!"1001 0100 0sss 1000") [(fld!"s", s)] := by
  have h := allIn1 (fun (s : Nat) => decide (0x9488 ||| (s <<< 4) = word (if true then pat!"1001 0100 1sss 1000" else pat!"1001 0100 0sss 1000") [(fld!"s", s)])) 3 (by decide +kernel)
  intro s hs; simpa using h s hs

theorem enc_bclr (b : Bool) (args : List AArg) (addr : Nat) (hr : regsOk args) :
    mWords b .bclr args addr = sWords b .bclr args addr := by
  unfold mWords sWords
  rw [info_bclr b]
  exact with_arity _ _ _ _ _ (fam_flagv 0x9488 true pack_bclr args hr) (fun h => by have := sFlagV_len h; simp [allowedArgs, this])

theorem info_sec (b : Bool) : info b (.se .c) = some (1, 0x9408) := by cases b <;> decide

theorem num_sec : lookupOp (.se .c) Gen.sfNum = some 0 := by decide

theorem enc_sec (b : Bool) (args : List AArg) (addr : Nat) (_hr : regsOk args) :
    mWords b (.se .c) args addr = sWords b (.se .c) args addr := by
  unfold mWords sWords
  rw [info_sec b]
  show (if !(allowedArgs (.se .c)).contains args.length then none else wordsOf (eFlag 0x9408 (lookupOp (.se .c) Gen.sfNum) args)) = _
  rw [num_sec]
  exact with_arity _ _ _ _ _ (fam_flag 0x9408 0 (.flag false (flagNum .c)) (by decide) args) (fun h => by have := sNone_len h; simp [allowedArgs, this])

theorem info_sez (b : Bool) : info b (.se .z) = some (1, 0x9408) := by cases b <;> decide

theorem num_sez : lookupOp (.se .z) Gen.sfNum = some 1 := by decide

theorem enc_sez (b : Bool) (args : List AArg) (addr : Nat) (_hr : regsOk args) :
    mWords b (.se .z) args addr = sWords b (.se .z) args addr := by
  unfold mWords sWords
  rw [info_sez b]
  show (if !(allowedArgs (.se .z)).contains args.length then none else wordsOf (eFlag 0x9408 (lookupOp (.se .z) Gen.sfNum) args)) = _
  rw [num_sez]
  exact with_arity _ _ _ _ _ (fam_flag 0x9408 1 (.flag false (flagNum .z)) (by decide) args) (fun h => by have := sNone_len h; simp [allowedArgs, this])

theorem info_sen (b : Bool) : info b (.se .n) = some (1, 0x9408) := by cases b <;> decide

theorem num_sen : lookupOp (.se .n) Gen.sfNum = some 2 := by decide

theorem enc_sen (b : Bool) (args : List AArg) (addr : Nat) (_hr : regsOk args) :
    mWords b (.se .n) args addr = sWords b (.se .n) args addr := by
  unfold mWords sWords
  rw [info_sen b]
  show (if !(allowedArgs (.se .n)).contains args.length then none else wordsOf (eFlag 0x9408 (lookupOp (.se .n) Gen.sfNum) args)) = _
  rw [num_sen]
  exact with_arity _ _ _ _ _ (fam_flag 0x9408 2 (.flag false (flagNum .n)) (by decide) args) (fun h => by have := sNone_len h; simp [allowedArgs, this])

theorem info_sev (b : Bool) : info b (.se .v) = some (1, 0x9408) := by cases b <;> decide

theorem num_sev : lookupOp (.se .v) Gen.sfNum = some 3 := by decide

theorem enc_sev (b : Bool) (args : List AArg) (addr : Nat) (_hr : regsOk args) :
    mWords b (.se .v) args addr = sWords b (.se .v) args addr := by
  unfold mWords sWords
  rw [info_sev b]
  show (if !(allowedArgs (.se .v)).contains args.length then none else wordsOf (eFlag 0x9408 (lookupOp (.se .v) Gen.sfNum) args)) = _
  rw [num_sev]
  exact with_arity _ _ _ _ _ (fam_flag 0x9408 3 (.flag false (flagNum .v)) (by decide) args) (fun h => by have := sNone_len h; simp [allowedArgs, this])

theorem info_ses (b : Bool) : info b (.se .s) = some (1, 0x9408) := by cases b <;> decide

theorem num_ses : lookupOp (.se .s) Gen.sfNum = some 4 := by decide

theorem enc_ses (b : Bool) (args : List AArg) (addr : Nat) (_hr : regsOk args) :
    mWords b (.se .s) args addr = sWords b (.se .s) args addr := by
  unfold mWords sWords
  rw [info_ses b]
  show (if !(allowedArgs (.se .s)).contains args.length then none else wordsOf (eFlag 0x9408 (lookupOp (.se .s) Gen.sfNum) args)) = _
  rw [num_ses]
  exact with_arity _ _ _ _ _ (fam_flag 0x9408 4 (.flag false (flagNum .s)) (by decide) args) (fun h => by have := sNone_len h; simp [allowedArgs, this])

theorem info_seh (b : Bool) : info b (.se .h) = some (1, 0x9408) := by cases b <;> decide

theorem num_seh : lookupOp (.se .h) Gen.sfNum = some 5 := by decide

theorem enc_seh (b : Bool) (args : List AArg) (addr : Nat) (_hr : regsOk args) :
    mWords b (.se .h) args addr = sWords b (.se .h) args addr := by
  unfold mWords sWords
  rw [info_seh b]
  show (if !(allowedArgs (.se .h)).contains args.length then none else wordsOf (eFlag 0x9408 (lookupOp (.se .h) Gen.sfNum) args)) = _
  rw [num_seh]
  exact with_arity _ _ _ _ _ (fam_flag 0x9408 5 (.flag false (flagNum .h)) (by decide) args) (fun h => by have := sNone_len h; simp [allowedArgs, this])

theorem info_set (b : Bool) : info b (.se .t) = some (1, 0x9408) := by cases b <;> decide

theorem num_set : lookupOp (.se .t) Gen.sfNum = some 6 := by decide

theorem enc_set (b : Bool) (args : List AArg) (addr : Nat) (_hr : regsOk args) :
    mWords b (.se .t) args addr = sWords b (.se .t) args addr := by
  unfold mWords sWords
  rw [info_set b]
  show (if !(allowedArgs (.se .t)).contains args.length then none else wordsOf (eFlag 0x9408 (lookupOp (.se .t) Gen.sfNum) args)) = _
  rw [num_set]
  exact with_arity _ _ _ _ _ (fam_flag 0x9408 6 (.flag false (flagNum .t)) (by decide) args) (fun h => by have := sNone_len h; simp [allowedArgs, this])

theorem info_sei (b : Bool) : info b (.se .i) = some (1, 0x9408) := by cases b <;> decide

theorem num_sei : lookupOp (.se .i) Gen.sfNum = some 7 := by decide

theorem enc_sei (b : Bool) (args : List AArg) (addr : Nat) (_hr : regsOk args) :
    mWords b (.se .i) args addr = sWords b (.se .i) args addr := by
  unfold mWords sWords
  rw [info_sei b]
  show (if !(allowedArgs (.se .i)).contains args.length then none else wordsOf (eFlag 0x9408 (lookupOp (.se .i) Gen.sfNum) args)) = _
  rw [num_sei]
  exact with_arity _ _ _ _ _ (fam_flag 0x9408 7 (.flag false (flagNum .i)) (by decide) args) (fun h => by have := sNone_len h; simp [allowedArgs, this])

theorem info_clc (b : Bool) : info b (.cl .c) = some (1, 0x9488) := by cases b <;> decide

theorem num_clc : lookupOp (.cl .c) Gen.sfNum = some 0 := by decide

theorem enc_clc (b : Bool) (args : List AArg) (addr : Nat) (_hr : regsOk args) :
    mWords b (.cl .c) args addr = sWords b (.cl .c) args addr := by
  unfold mWords sWords
  rw [info_clc b]
  show (if !(allowedArgs (.cl .c)).contains args.length then none else wordsOf (eFlag 0x9488 (lookupOp (.cl .c) Gen.sfNum) args)) = _
  rw [num_clc]
  exact with_arity _ _ _ _ _ (fam_flag 0x9488 0 (.flag true (flagNum .c)) (by decide) args) (fun h => by have := sNone_len h; simp [allowedArgs, this])

theorem info_clz (b : Bool) : info b (.cl .z) = some (1, 0x9488) := by cases b <;> decide

theorem num_clz : lookupOp (.cl .z) Gen.sfNum = some 1 := by decide

theorem enc_clz (b : Bool) (args : List AArg) (addr : Nat) (_hr : regsOk args) :
    mWords b (.cl .z) args addr = sWords b (.cl .z) args addr := by
  unfold mWords sWords
  rw [info_clz b]
  show (if !(allowedArgs (.cl .z)).contains args.length then none else wordsOf (eFlag 0x9488 (lookupOp (.cl .z) Gen.sfNum) args)) = _
  rw [num_clz]
  exact with_arity _ _ _ _ _ (fam_flag 0x9488 1 (.flag true (flagNum .z)) (by decide) args) (fun h => by have := sNone_len h; simp [allowedArgs, this])

theorem info_cln (b : Bool) : info b (.cl .n) = some (1, 0x9488) := by cases b <;> decide

theorem num_cln : lookupOp (.cl .n) Gen.sfNum = some 2 := by decide

theorem enc_cln (b : Bool) (args : List AArg) (addr : Nat) (_hr : regsOk args) :
    mWords b (.cl .n) args addr = sWords b (.cl .n) args addr := by
  unfold mWords sWords
  rw [info_cln b]
  show (if !(allowedArgs (.cl .n)).contains args.length then none else wordsOf (eFlag 0x9488 (lookupOp (.cl .n) Gen.sfNum) args)) = _
  rw [num_cln]
  exact with_arity _ _ _ _ _ (fam_flag 0x9488 2 (.flag true (flagNum .n)) (by decide) args) (fun h => by have := sNone_len h; simp [allowedArgs, this])

theorem info_clv (b : Bool) : info b (.cl .v) = some (1, 0x9488) := by cases b <;> decide

theorem num_clv : lookupOp (.cl .v) Gen.sfNum = some 3 := by decide

theorem enc_clv (b : Bool) (args : List AArg) (addr : Nat) (_hr : regsOk args) :
    mWords b (.cl .v) args addr = sWords b (.cl .v) args addr := by
  unfold mWords sWords
  rw [info_clv b]
  show (if !(allowedArgs (.cl .v)).contains args.length then none else wordsOf (eFlag 0x9488 (lookupOp (.cl .v) Gen.sfNum) args)) = _
  rw [num_clv]
  exact with_arity _ _ _ _ _ (fam_flag 0x9488 3 (.flag true (flagNum .v)) (by decide) args) (fun h => by have := sNone_len h; simp [allowedArgs, this])

theorem info_cls (b : Bool) : info b (.cl .s) = some (1, 0x9488) := by cases b <;> decide

theorem num_cls : lookupOp (.cl .s) Gen.sfNum = some 4 := by decide

theorem enc_cls (b : Bool) (args : List AArg) (addr : Nat) (_hr : regsOk args) :
    mWords b (.cl .s) args addr = sWords b (.cl .s) args addr := by
  unfold mWords sWords
  rw [info_cls b]
  show (if !(allowedArgs (.cl .s)).contains args.length then none else wordsOf (eFlag 0x9488 (lookupOp (.cl .s) Gen.sfNum) args)) = _
  rw [num_cls]
  exact with_arity _ _ _ _ _ (fam_flag 0x9488 4 (.flag true (flagNum .s)) (by decide) args) (fun h => by have := sNone_len h; simp [allowedArgs, this])

theorem info_clh (b : Bool) : info b (.cl .h) = some (1, 0x9488) := by cases b <;> decide

theorem num_clh : lookupOp (.cl .h) Gen.sfNum = some 5 := by decide

theorem enc_clh (b : Bool) (args : List AArg) (addr : Nat) (_hr : regsOk args) :
    mWords b (.cl .h) args addr = sWords b (.cl .h) args addr := by
  unfold mWords sWords
  rw [info_clh b]
  show (if !(allowedArgs (.cl .h)).contains args.length then none else wordsOf (eFlag 0x9488 (lookupOp (.cl .h) Gen.sfNum) args)) = _
  rw [num_clh]
  exact with_arity _ _ _ _ _ (fam_flag 0x9488 5 (.flag true (flagNum .h)) (by decide) args) (fun h => by have := sNone_len h; simp [allowedArgs, this])

theorem info_clt (b : Bool) : info b (.cl .t) = some (1, 0x9488) := by cases b <;> decide

theorem num_clt : lookupOp (.cl .t) Gen.sfNum = some 6 := by decide

theorem enc_clt (b : Bool) (args : List AArg) (addr : Nat) (_hr : regsOk args) :
    mWords b (.cl .t) args addr = sWords b (.cl .t) args addr := by
  unfold mWords sWords
  rw [info_clt b]
  show (if !(allowedArgs (.cl .t)).contains args.length then none else wordsOf (eFlag 0x9488 (lookupOp (.cl .t) Gen.sfNum) args)) = _
  rw [num_clt]
  exact with_arity _ _ _ _ _ (fam_flag 0x9488 6 (.flag true (flagNum .t)) (by decide) args) (fun h => by have := sNone_len h; simp [allowedArgs, this])

theorem info_cli (b : Bool) : info b (.cl .i) = some (1, 0x9488) := by cases b <;> decide

theorem num_cli : lookupOp (.cl .i) Gen.sfNum = some 7 := by decide

theorem enc_cli (b : Bool) (args : List AArg) (addr : Nat) (_hr : regsOk args) :
    mWords b (.cl .i) args addr = sWords b (.cl .i) args addr := by
  unfold mWords sWords
  rw [info_cli b]
  show (if !(allowedArgs (.cl .i)).contains args.length then none else wordsOf (eFlag 0x9488 (lookupOp (.cl .i) Gen.sfNum) args)) = _
  rw [num_cli]
  exact with_arity _ _ _ _ _ (fam_flag 0x9488 7 (.flag true (flagNum .i)) (by decide) args) (fun h => by have := sNone_len h; simp [allowedArgs, this])

theorem info_ijmp (b : Bool) : info b .ijmp = some (1, 0x9409) := by cases b <;> decide

theorem enc_ijmp (b : Bool) (args : List AArg) (addr : Nat) (_hr : regsOk args) :
    mWords b .ijmp args addr = sWords b .ijmp args addr := by
  unfold mWords sWords
  rw [info_ijmp b]
  exact with_arity _ _ _ _ _ (fam_none 0x9409 (.noarg .ijmp) (by decide) args) (fun h => by have := sNone_len h; simp [allowedArgs, this])

theorem info_eijmp (b : Bool) : info b .eijmp = some (1, 0x9419) := by cases b <;> decide

theorem enc_eijmp (b : Bool) (args : List AArg) (addr : Nat) (_hr : regsOk args) :
    mWords b .eijmp args addr = sWords b .eijmp args addr := by
  unfold mWords sWords
  rw [info_eijmp b]
  exact with_arity _ _ _ _ _ (fam_none 0x9419 (.noarg .eijmp) (by decide) args) (fun h => by have := sNone_len h; simp [allowedArgs, this])

theorem info_icall (b : Bool) : info b .icall = some (1, 0x9509) := by cases b <;> decide

theorem enc_icall (b : Bool) (args : List AArg) (addr : Nat) (_hr : regsOk args) :
    mWords b .icall args addr = sWords b .icall args addr := by
  unfold mWords sWords
  rw [info_icall b]
  exact with_arity _ _ _ _ _ (fam_none 0x9509 (.noarg .icall) (by decide) args) (fun h => by have := sNone_len h; simp [allowedArgs, this])

theorem info_eicall (b : Bool) : info b .eicall = some (1, 0x9519) := by cases b <;> decide

theorem enc_eicall (b : Bool) (args : List AArg) (addr : Nat) (_hr : regsOk args) :
    mWords b .eicall args addr = sWords b .eicall args addr := by
  unfold mWords sWords
  rw [info_eicall b]
  exact with_arity _ _ _ _ _ (fam_none 0x9519 (.noarg .eicall) (by decide) args) (fun h => by have := sNone_len h; simp [allowedArgs, this])

theorem info_ret (b : Bool) : info b .ret = some (1, 0x9508) := by cases b <;> decide

theorem enc_ret (b : Bool) (args : List AArg) (addr : Nat) (_hr : regsOk args) :
    mWords b .ret args addr = sWords b .ret args addr := by
  unfold mWords sWords
  rw [info_ret b]
  exact with_arity _ _ _ _ _ (fam_none 0x9508 (.noarg .ret) (by decide) args) (fun h => by have := sNone_len h; simp [allowedArgs, this])

theorem info_reti (b : Bool) : info b .reti = some (1, 0x9518) := by cases b <;> decide

theorem enc_reti (b : Bool) (args : List AArg) (addr : Nat) (_hr : regsOk args) :
    mWords b .reti args addr = sWords b .reti args addr := by
  unfold mWords sWords
  rw [info_reti b]
  exact with_arity _ _ _ _ _ (fam_none 0x9518 (.noarg .reti) (by decide) args) (fun h => by have := sNone_len h; simp [allowedArgs, this])

theorem info_spm (b : Bool) : info b .spm = some (1, 0x95e8) := by cases b <;> decide

theorem enc_spm (b : Bool) (args : List AArg) (addr : Nat) (_hr : regsOk args) :
    mWords b .spm args addr = sWords b .spm args addr := by
  unfold mWords sWords
  rw [info_spm b]
  exact with_arity _ _ _ _ _ (fam_none 0x95e8 (.noarg .spm) (by decide) args) (fun h => by have := sNone_len h; simp [allowedArgs, this])

theorem info_break (b : Bool) : info b .«break» = some (1, 0x9598) := by cases b <;> decide

theorem enc_break (b : Bool) (args : List AArg) (addr : Nat) (_hr : regsOk args) :
    mWords b .«break» args addr = sWords b .«break» args addr := by
  unfold mWords sWords
  rw [info_break b]
  exact with_arity _ _ _ _ _ (fam_none 0x9598 (.noarg .«break») (by decide) args) (fun h => by have := sNone_len h; simp [allowedArgs, this])

theorem info_nop (b : Bool) : info b .nop = some (1, 0x0) := by cases b <;> decide

theorem enc_nop (b : Bool) (args : List AArg) (addr : Nat) (_hr : regsOk args) :
    mWords b .nop args addr = sWords b .nop args addr := by
  unfold mWords sWords
  rw [info_nop b]
  exact with_arity _ _ _ _ _ (fam_none 0x0 (.noarg .nop) (by decide) args) (fun h => by have := sNone_len h; simp [allowedArgs, this])

theorem info_sleep (b : Bool) : info b .sleep = some (1, 0x9588) := by cases b <;> decide

theorem enc_sleep (b : Bool) (args : List AArg) (addr : Nat) (_hr : regsOk args) :
    mWords b .sleep args addr = sWords b .sleep args addr := by
  unfold mWords sWords
  rw [info_sleep b]
  exact with_arity _ _ _ _ _ (fam_none 0x9588 (.noarg .sleep) (by decide) args) (fun h => by have := sNone_len h; simp [allowedArgs, this])

theorem info_wdr (b : Bool) : info b .wdr = some (1, 0x95a8) := by cases b <;> decide

theorem enc_wdr (b : Bool) (args : List AArg) (addr : Nat) (_hr : regsOk args) :
    mWords b .wdr args addr = sWords b .wdr args addr := by
  unfold mWords sWords
  rw [info_wdr b]
  exact with_arity _ _ _ _ _ (fam_none 0x95a8 (.noarg .wdr) (by decide) args) (fun h => by have := sNone_len h; simp [allowedArgs, this])

end Avra.Props.Enc
