/-
  C15 — a failed build names the offending line; messages are kept in order.

  Model: the error sites of `lineStep` / `directiveParse` (parser.rs, directive.rs), `pass1Items`
  (pass1.rs), `pass2Items` (pass2.rs), `macroExpand` (pass0.rs).  Every error value of the model
  carries the line the Rust message names (`line: N`), or none.
-/
import Avra.Model.Build
namespace Avra.Props.C15
open Avra Avra.Model

/-! ### errors of the line loop name the line being read -/

/-- a line that does not parse is an error naming that line (1-based) -/
theorem syntax_error_line (inc : IncludeFn) (cur : Str) (incs : List Str) (st : PState) (idx : Nat)
    (text : Str) (re : Bool) (h : parseLine text = (none, false)) :
    lineStep inc cur incs st idx text re = .error ⟨some (idx + 1), "syntax"⟩ := by
  simp [lineStep, h, lineErr]

/-- `.error "text"` fails the build wherever it is assembled, naming its line -/
theorem error_directive_fatal (inc : IncludeFn) (cur : Str) (incs : List Str) (st : PState) (msg : Str)
    (more : List Operand) (ln : Nat) :
    directiveParse inc cur incs st .error (.opList (.s msg :: more)) ln = .error ⟨some ln, "error-directive"⟩ := by
  simp [directiveParse, lineErr]

/-- `.message` / `.warning` append exactly one entry — kind, text, their own line — to the END of
    the message list and change nothing else of the state (segments, symbols, macros): they cannot
    change the images -/
theorem message_only_appends (inc : IncludeFn) (cur : Str) (incs : List Str) (st : PState) (msg : Str)
    (more : List Operand) (ln : Nat) :
    directiveParse inc cur incs st .message (.opList (.s msg :: more)) ln =
      .ok ({ st with messages := st.messages ++ [messageText "info".toList msg ln] }, incs, .newLine) ∧
    directiveParse inc cur incs st .warning (.opList (.s msg :: more)) ln =
      .ok ({ st with messages := st.messages ++ [messageText "warning".toList msg ln] }, incs, .newLine) := by
  constructor <;> simp [directiveParse]

/-- the entry names the line: "<kind>: <text> in line: <n>" -/
theorem message_text (kind msg : Str) (ln : Nat) :
    messageText kind msg ln = kind ++ ": ".toList ++ msg ++ " in line: ".toList ++ natToDec ln := rfl

/-- EVERY error a directive can raise (wrong operands, undefined symbol in `.if`/`.org`/`.byte`,
    unknown device, second `.device`, `.equ` of a taken name, `.error`, unsupported directive …)
    names the directive's line; the one exception is `.include`, whose errors come from the file -/
theorem directive_error_line (inc : IncludeFn) (cur : Str) (incs : List Str) (st : PState) (d : Directive)
    (ops : DirectiveOps) (ln : Nat) (e : Err) (hd : d ≠ .include)
    (h : directiveParse inc cur incs st d ops ln = .error e) : e.line = some ln := by
  unfold directiveParse at h
  dsimp only at h
  repeat' split at h
  all_goals first
    | (simp only [lineErr, Out.error.injEq] at h; subst h; rfl)
    | (simp at h; done)
    | (exact absurd rfl hd)

/-- every directive other than `.include` keeps the messages recorded so far, in order, and at
    most appends to their END: the list is in the order the lines were assembled -/
theorem modifyLast_messages (st : PState) (f : Segment → Segment) : (st.modifyLast f).messages = st.messages := by
  unfold PState.modifyLast; split <;> rfl
theorem directive_messages_grow (inc : IncludeFn) (cur : Str) (incs : List Str) (st : PState) (d : Directive)
    (ops : DirectiveOps) (ln : Nat) (r : PState × List Str × NextItem) (hd : d ≠ .include)
    (h : directiveParse inc cur incs st d ops ln = .ok r) : ∃ extra, r.1.messages = st.messages ++ extra := by
  unfold directiveParse at h
  dsimp only at h
  repeat' split at h
  all_goals first
    | (simp [lineErr] at h; done)
    | (exact absurd rfl hd)
    | (simp only [Out.ok.injEq] at h; subst h; refine ⟨[], ?_⟩; simp [PState.pushToLast, modifyLast_messages, PState.addSegment]; done)
    | (simp only [Out.ok.injEq] at h; subst h; exact ⟨[_], rfl⟩)

/-- the same for every line of the loop: an error raised while reading line `idx` (0-based) names
    line `idx + 1`, unless the line is an `.include` (then the error is the file's) -/
theorem lineStep_error_line (inc : IncludeFn) (cur : Str) (incs : List Str) (st : PState) (idx : Nat)
    (text : Str) (re : Bool) (e : Err)
    (hinc : ∀ lab ops, parseLine text ≠ (some (.directiveLine lab .include ops), false))
    (h : lineStep inc cur incs st idx text re = .error e) : e.line = some (idx + 1) := by
  unfold lineStep at h
  dsimp only at h
  split at h
  · simp at h
  · simp only [lineErr, Out.error.injEq] at h; subst h; rfl
  · rename_i b hb hp
    split at h
    · simp at h
    · simp at h
    · rename_i lab d ops
      split at h
      · simp at h
      · have hd : d ≠ .include := by
          intro hd; subst hd
          have hbf : b = false := by cases b <;> simp_all
          subst hbf; exact hinc lab ops hp
        exact directive_error_line inc cur incs _ d ops (idx + 1) e hd h
    · simp at h

/-! ### the message list only ever grows at its end, through the whole parse -/

/-- "the messages recorded so far are kept, in order" -/
def Grows (a b : List Str) : Prop := ∃ extra, b = a ++ extra

theorem Grows.refl (a : List Str) : Grows a a := ⟨[], by simp⟩
theorem Grows.trans {a b c : List Str} (h1 : Grows a b) (h2 : Grows b c) : Grows a c := by
  obtain ⟨x, rfl⟩ := h1; obtain ⟨y, rfl⟩ := h2; exact ⟨x ++ y, by simp⟩

/-- an include handler that keeps the messages -/
def IncGrows (inc : IncludeFn) : Prop := ∀ p i st r, inc p i st = .ok r → Grows st.messages r.1.messages

theorem directive_grows (inc : IncludeFn) (hinc : IncGrows inc) (cur : Str) (incs : List Str) (st : PState)
    (d : Directive) (ops : DirectiveOps) (ln : Nat) (r : PState × List Str × NextItem)
    (h : directiveParse inc cur incs st d ops ln = .ok r) : Grows st.messages r.1.messages := by
  by_cases hd : d = .include
  · subst hd
    unfold directiveParse at h
    dsimp only at h
    repeat' split at h
    all_goals first
      | (simp [lineErr] at h; done)
      | (rename_i heq; simp only [Out.ok.injEq] at h; subst h; exact hinc _ _ _ _ heq)
  · obtain ⟨x, hx⟩ := directive_messages_grow inc cur incs st d ops ln r hd h
    exact ⟨x, hx⟩

theorem pushToLast_messages (st : PState) (ln : Nat) (it : Item) : (st.pushToLast ln it).messages = st.messages := by
  simp [PState.pushToLast, modifyLast_messages]

theorem lineStep_grows (inc : IncludeFn) (hinc : IncGrows inc) (cur : Str) (incs : List Str) (st : PState)
    (idx : Nat) (text : Str) (re : Bool) (r : PState × List Str × NextItem)
    (h : lineStep inc cur incs st idx text re = .ok r) : Grows st.messages r.1.messages := by
  unfold lineStep at h
  dsimp only at h
  repeat' split at h
  all_goals first
    | (simp [lineErr] at h; done)
    | (simp only [Out.ok.injEq] at h; subst h; simp only [pushToLast_messages]; exact Grows.refl _)
    | (have := directive_grows inc hinc _ _ _ _ _ _ _ h; simpa only [pushToLast_messages] using this)

theorem skipStep_messages (st : PState) (ni : NextItem) (ls : List (Nat × Str)) :
    (skipStep st ni ls).1.messages = st.messages := by
  unfold skipStep
  cases ni <;> simp
  · split <;> rfl

theorem loop_grows (inc : IncludeFn) (hinc : IncGrows inc) (cur : Str) :
    ∀ (f : Nat) (incs : List Str) (st : PState) (ni : NextItem) (ls : List (Nat × Str)) (r : PState × List Str),
      parseIterWith inc cur f incs st ni ls = .ok r → Grows st.messages r.1.messages := by
  intro f
  induction f with
  | zero => intro incs st ni ls r h; simp [parseIterWith] at h
  | succ f ih =>
    intro incs st ni ls r h
    simp only [parseIterWith] at h
    have hsk := skipStep_messages st ni ls
    cases hs : skipStep st ni ls with
    | mk st1 t =>
      obtain ⟨nx, re, rest, o⟩ := t
      rw [hs] at h hsk
      simp only at hsk
      cases o with
      | true => simp at h
      | false =>
        cases nx with
        | none => simp only [Out.ok.injEq] at h; subst h; rw [← hsk]; exact Grows.refl _
        | some line =>
          obtain ⟨idx, text⟩ := line
          simp only at h
          cases hl : lineStep inc cur incs st1 idx text re with
          | ok v =>
            obtain ⟨st', incs', ni'⟩ := v
            rw [hl] at h
            have h1 := lineStep_grows inc hinc cur incs st1 idx text re _ hl
            have h2 := ih _ _ _ _ _ h
            rw [← hsk]; exact h1.trans h2
          | error e => rw [hl] at h; simp at h
          | panic p => rw [hl] at h; simp at h
          | oof => rw [hl] at h; simp at h

/-- files, to any include depth: the messages assembled before an `.include` stay in front of
    the file's own, which stay in front of everything after it -/
theorem file_grows (fs : Fs) : ∀ (d : Nat), IncGrows (parseFileAt fs d) := by
  intro d
  induction d with
  | zero => intro p i st r h; simp [parseFileAt] at h
  | succ d ih =>
    intro p i st r h
    unfold parseFileAt at h
    dsimp only at h
    repeat' split at h
    all_goals first
      | (simp at h; done)
      | (simp only [Out.ok.injEq] at h; subst h
         have hg := loop_grows _ ih _ _ _ _ _ _ _ ‹parseIterWith _ _ _ _ _ _ _ = Out.ok _›
         exact hg)

/-- the whole parse of a source text keeps the messages in the order their lines were assembled -/
theorem parse_messages_in_order (fs : Fs) (cur : Str) (incs : List Str) (st : PState) (ni : NextItem)
    (ls : List (Nat × Str)) (r : PState × List Str) (h : parseIter fs cur incs st ni ls = .ok r) :
    Grows st.messages r.1.messages :=
  loop_grows _ (file_grows fs includeDepth) _ _ _ _ _ _ _ h

/-! ### errors of pass 2 name the line of the item that failed -/

theorem pass2_error_names_item (t : SegT) : ∀ (items : List (Nat × Item)) (cur : Nat) (acc : List Nat) (ctx : Ctx)
    (e : Err), pass2Items t items cur acc ctx = .error e → ∃ p ∈ items, e.line = some p.1 := by
  intro items
  induction items with
  | nil => intro cur acc ctx e h; simp [pass2Items] at h
  | cons x rest ih =>
    obtain ⟨ln, it⟩ := x
    intro cur acc ctx e h
    unfold pass2Items at h
    dsimp only at h
    repeat' split at h
    all_goals first
      | (simp only [lineErr, Out.error.injEq] at h; subst h; exact ⟨_, List.mem_cons_self, rfl⟩)
      | (simp at h; done)
      | (obtain ⟨p, hp, hl⟩ := ih _ _ _ _ h; exact ⟨p, List.mem_cons_of_mem _ hp, hl⟩)

/-! ### errors of pass 1 name the line of the item that failed (duplicate label, misplaced item),
    except the capacity overflow found at the end of a segment, which has no line -/

theorem consItem_error (x : Nat × Item) (r : Out (Nat × List (Nat × Item) × Ctx)) (e : Err)
    (h : consItem x r = .error e) : r = .error e := by
  cases r with
  | ok v => obtain ⟨a, b, c⟩ := v; simp [consItem] at h
  | error e' => simpa [consItem] using h
  | panic s => simp [consItem] at h
  | oof => simp [consItem] at h

theorem pass1_error_names_item (t : SegT) (limit : Nat) : ∀ (items : List (Nat × Item)) (cur : Nat) (ctx : Ctx)
    (e : Err), pass1Items t limit items cur ctx = .error e →
      (∃ p ∈ items, e.line = some p.1) ∨ (e.line = none ∧ e.kind = "overdue") := by
  intro items
  induction items with
  | nil =>
    intro cur ctx e h
    unfold pass1Items at h
    split at h
    · simp only [noLineErr, Out.error.injEq] at h; subst h; exact Or.inr ⟨rfl, rfl⟩
    · simp at h
  | cons x rest ih =>
    obtain ⟨ln, it⟩ := x
    intro cur ctx e h
    unfold pass1Items at h
    repeat' split at h
    all_goals first
      | (simp only [lineErr, Out.error.injEq] at h; subst h; exact Or.inl ⟨_, List.mem_cons_self, rfl⟩)
      | (simp at h; done)
      | (exact (ih _ _ _ h).elim (fun ⟨p, hp, hl⟩ => Or.inl ⟨p, List.mem_cons_of_mem _ hp, hl⟩) Or.inr)
      | (exact (ih _ _ _ (consItem_error _ _ _ h)).elim (fun ⟨p, hp, hl⟩ => Or.inl ⟨p, List.mem_cons_of_mem _ hp, hl⟩) Or.inr)

/-- the duplicate label in particular: the SECOND definition is the item that fails -/
theorem duplicate_label_line (t : SegT) (limit : Nat) (ln : Nat) (name : Str) (rest : List (Nat × Item))
    (cur : Nat) (ctx : Ctx) (hc : ¬ cur > limit) (hex : ctx.exist name = true) :
    pass1Items t limit ((ln, .label name) :: rest) cur ctx = .error ⟨some ln, "label-twice"⟩ := by
  unfold pass1Items
  simp [hc, hex, lineErr]

/-! ### an undefined or unknown macro names the line of the call -/

theorem unknown_macro_line (fs : Fs) (macros : List (Str × List (Nat × Str))) (st : PState) (ln : Nat)
    (name : Str) (ops : List IOp) (h : alookup name macros = none) :
    macroExpand fs macros st ln name ops = .error ⟨some ln, "undefined-macro"⟩ := by
  simp [macroExpand, h, lineErr]

end Avra.Props.C15
