/-
  C15 for the passes behind the parser, as ONE statement about `build_from_parsed`: an error of
  pass 1 or pass 2 carries the line number of an item of the program (as pass 0 left it), except
  the capacity and overlap errors, which concern a whole memory and carry no line.
-/
import Avra.Props.C15
namespace Avra.Props.C15b
open Avra Avra.Model Avra.Props.C15

/-- the line numbers of all items of a list of segments -/
def LineOf (segs : List Segment) (n : Nat) : Prop := ∃ s ∈ segs, ∃ p ∈ s.items, p.1 = n

/-- error kinds that concern a whole memory, not a line -/
def Unlined (e : Err) : Prop :=
  e.line = none ∧ (e.kind = "overdue" ∨ e.kind = "overlap" ∨ e.kind = "flash-overdue" ∨
    e.kind = "eeprom-overdue" ∨ e.kind = "ram-overdue")

/-- pass 1 hands every item on under the line number it came with -/
theorem pass1Items_lines (t : SegT) (limit : Nat) : ∀ (items : List (Nat × Item)) (cur : Nat) (ctx : Ctx)
    (e : Nat) (out : List (Nat × Item)) (ctx' : Ctx),
    pass1Items t limit items cur ctx = .ok (e, out, ctx') → ∀ p ∈ out, ∃ q ∈ items, q.1 = p.1 := by
  intro items
  induction items with
  | nil =>
    intro cur ctx e out ctx' h
    unfold pass1Items at h
    split at h
    · simp [noLineErr] at h
    · simp only [Out.ok.injEq, Prod.mk.injEq] at h; obtain ⟨_, h2, _⟩ := h; subst h2; intro p hp; cases hp
  | cons x rest ih =>
    obtain ⟨ln, it⟩ := x
    intro cur ctx e out ctx' h
    have lift : ∀ (o : List (Nat × Item)), (∀ p ∈ o, ∃ q ∈ rest, q.1 = p.1) →
        ∀ p ∈ o, ∃ q ∈ (ln, it) :: rest, q.1 = p.1 :=
      fun o ho p hp => let ⟨q, hq, hl⟩ := ho p hp; ⟨q, List.mem_cons_of_mem _ hq, hl⟩
    have viaCons : ∀ (y : Item) (r : Out (Nat × List (Nat × Item) × Ctx)),
        consItem (ln, y) r = .ok (e, out, ctx') →
        (∀ e1 o1 c1, r = .ok (e1, o1, c1) → ∀ p ∈ o1, ∃ q ∈ rest, q.1 = p.1) →
        ∀ p ∈ out, ∃ q ∈ (ln, it) :: rest, q.1 = p.1 := by
      intro y r hc hr
      cases r with
      | ok v =>
        obtain ⟨e1, o1, c1⟩ := v
        simp only [consItem, Out.ok.injEq, Prod.mk.injEq] at hc
        obtain ⟨_, h2, _⟩ := hc; subst h2
        intro p hp
        rcases List.mem_cons.mp hp with rfl | hp
        · exact ⟨(ln, it), List.mem_cons_self, rfl⟩
        · exact lift o1 (hr e1 o1 c1 rfl) p hp
      | error e' => simp [consItem] at hc
      | panic s => simp [consItem] at hc
      | oof => simp [consItem] at hc
    unfold pass1Items at h
    repeat' split at h
    all_goals first
      | (simp [lineErr] at h; done)
      | (simp at h; done)
      | (exact lift out (ih _ _ _ _ _ h))
      | (exact viaCons _ _ h (fun e1 o1 c1 hr => ih _ _ _ _ _ hr))

theorem lineOf_cons {s : Segment} {more : List Segment} {n : Nat} (h : LineOf more n) : LineOf (s :: more) n :=
  let ⟨x, hx, p, hp, hl⟩ := h; ⟨x, List.mem_cons_of_mem _ hx, p, hp, hl⟩

theorem step_ok (s : Segment) (more out : List Segment) (X : Out Pass1Result) (items : List (Nat × Item))
    (t : SegT) (start : Nat)
    (hl : ∀ p ∈ items, ∃ q ∈ s.items, q.1 = p.1)
    (hX : (∀ e, X = .error e → (∃ n, e.line = some n ∧ LineOf more n) ∨ Unlined e) ∧
          (∀ r, X = .ok r → ∀ n, LineOf r.segments n →
              LineOf more n ∨ LineOf ({ items := items, t := t, address := start } :: out) n)) :
    (∀ e, X = .error e → (∃ n, e.line = some n ∧ LineOf (s :: more) n) ∨ Unlined e) ∧
    (∀ r, X = .ok r → ∀ n, LineOf r.segments n → LineOf (s :: more) n ∨ LineOf out n) := by
  obtain ⟨hke, hko⟩ := hX
  constructor
  · intro e he
    rcases hke e he with ⟨n, h1, h2⟩ | hu
    · exact Or.inl ⟨n, h1, lineOf_cons h2⟩
    · exact Or.inr hu
  · intro r hr n hn
    rcases hko r hr n hn with h | ⟨x, hx, p, hpm, hpl⟩
    · exact Or.inl (lineOf_cons h)
    · rcases List.mem_cons.mp hx with rfl | hx
      · obtain ⟨q, hq, hql⟩ := hl p hpm
        exact Or.inl ⟨s, List.mem_cons_self, q, hq, hql.trans hpl⟩
      · exact Or.inr ⟨x, hx, p, hpm, hpl⟩

theorem step_err (s : Segment) (more out : List Segment) (t : SegT) (limit start : Nat) (ctx : Ctx) (e' : Err)
    (hp : pass1Items t limit s.items start ctx = .error e') :
    (∀ e, (Out.error e' : Out Pass1Result) = .error e → (∃ n, e.line = some n ∧ LineOf (s :: more) n) ∨ Unlined e) ∧
    (∀ r, (Out.error e' : Out Pass1Result) = .ok r → ∀ n, LineOf r.segments n → LineOf (s :: more) n ∨ LineOf out n) := by
  constructor
  · intro e he
    simp only [Out.error.injEq] at he; subst he
    rcases pass1_error_names_item t limit s.items start ctx e' hp with ⟨p, hpm, hpl⟩ | ⟨h1, h2⟩
    · exact Or.inl ⟨p.1, hpl, s, List.mem_cons_self, p, hpm, rfl⟩
    · exact Or.inr ⟨h1, Or.inl h2⟩
  · intro r hr; simp at hr

/-- the segment loop of pass 1: an error names the line of an item or is a capacity/overlap
    error; the segments handed to pass 2 hold only line numbers of the program's items -/
theorem pass1_go (msgs : List Str) (dev : Device) : ∀ (segs : List Segment) (cO dO eO : Nat) (out : List Segment) (ctx : Ctx),
    (∀ e, pass1.go msgs dev segs cO dO eO out ctx = .error e →
        (∃ n, e.line = some n ∧ LineOf segs n) ∨ Unlined e) ∧
    (∀ r, pass1.go msgs dev segs cO dO eO out ctx = .ok r →
        ∀ n, LineOf r.segments n → LineOf segs n ∨ LineOf out n) := by
  intro segs
  induction segs with
  | nil =>
    intro cO dO eO out ctx
    constructor
    · intro e h; unfold pass1.go at h; simp at h
    · intro r h n hn
      unfold pass1.go at h
      simp only [Out.ok.injEq] at h; subst h
      obtain ⟨x, hx, p, hp, hl⟩ := hn
      exact Or.inr ⟨x, by simpa using hx, p, hp, hl⟩
  | cons s more ih =>
    intro cO dO eO out ctx
    have hover : ∀ e, (noLineErr "overlap" : Out Pass1Result) = .error e → Unlined e := by
      intro e he
      simp only [noLineErr, Out.error.injEq] at he; subst he
      exact ⟨rfl, Or.inr (Or.inl rfl)⟩
    unfold pass1.go
    cases ht : s.t <;> simp only <;> split
    all_goals first
      | exact ⟨fun e he => Or.inr (hover e he), fun r hr => by simp [noLineErr] at hr⟩
      | (split
         · rename_i endOff items ctx' hp
           exact step_ok s more out _ items _ _ (pass1Items_lines _ _ _ _ _ _ _ _ hp) (ih _ _ _ _ _)
         · rename_i e' hp
           exact step_err s more out _ _ _ _ e' hp
         · exact ⟨fun e he => by simp at he, fun r hr => by simp at hr⟩
         · exact ⟨fun e he => by simp at he, fun r hr => by simp at hr⟩)

/-- the segment loop of pass 2: every error names the line of an item -/
theorem pass2_go_error (p1 : Pass1Result) : ∀ (segs : List Segment) (code ee : List Nat) (ctx : Ctx) (e : Err),
    pass2.go p1 segs code ee ctx = .error e → ∃ n, e.line = some n ∧ LineOf segs n := by
  intro segs
  induction segs with
  | nil => intro code ee ctx e h; unfold pass2.go at h; simp at h
  | cons s more ih =>
    intro code ee ctx e h
    unfold pass2.go at h
    dsimp only at h
    split at h
    · split at h
      all_goals (obtain ⟨n, h1, h2⟩ := ih _ _ _ _ h; exact ⟨n, h1, lineOf_cons h2⟩)
    · rename_i e' hp
      simp only [Out.error.injEq] at h; subst h
      obtain ⟨p, hpm, hpl⟩ := pass2_error_names_item s.t s.items s.address [] ctx e' hp
      exact ⟨p.1, hpl, s, List.mem_cons_self, p, hpm, rfl⟩
    · simp at h
    · simp at h

/-- **C15 for `build_from_parsed`.**  Whatever the parsed program: when pass 0 has done its work
    (`p0`) and the build then fails, the error carries the line number of an item of the program
    as pass 0 left it — the item pass 1 or pass 2 stopped at — or it is one of the five errors
    that concern a whole memory (capacity of flash, EEPROM or RAM exceeded; segments overlapping),
    which carry no line. -/
theorem build_error_names_line (fs : Fs) (st : PState) (p0 : PState) (e : Err)
    (h0 : pass0 fs st.asParseResult st.ctx = .ok p0)
    (h : buildFromParsed fs st = .error e) :
    (∃ n, e.line = some n ∧ LineOf p0.segments n) ∨ Unlined e := by
  unfold buildFromParsed at h
  rw [h0] at h
  dsimp only at h
  have hsub : ∀ n, LineOf (p0.segments.filter fun s => !s.items.isEmpty) n → LineOf p0.segments n := by
    intro n ⟨x, hx, p, hp, hl⟩
    exact ⟨x, (List.mem_filter.mp hx).1, p, hp, hl⟩
  cases h1 : pass1 (p0.segments.filter fun s => !s.items.isEmpty) p0.messages p0.ctx with
  | ok p1 =>
    have hlines := (pass1_go p0.messages p0.ctx.device _ 0 p0.ctx.device.ramStart 0 [] p0.ctx).2 p1 h1
    rw [h1] at h
    dsimp only at h
    cases h2 : pass2 p1 with
    | ok p2 =>
      rw [h2] at h
      dsimp only at h
      split at h
      · simp only [noLineErr, Out.error.injEq] at h; subst h
        exact Or.inr ⟨rfl, Or.inr (Or.inr (Or.inl rfl))⟩
      · split at h
        · simp only [noLineErr, Out.error.injEq] at h; subst h
          exact Or.inr ⟨rfl, Or.inr (Or.inr (Or.inr (Or.inl rfl)))⟩
        · split at h
          · simp only [noLineErr, Out.error.injEq] at h; subst h
            exact Or.inr ⟨rfl, Or.inr (Or.inr (Or.inr (Or.inr rfl)))⟩
          · simp at h
    | error e2 =>
      rw [h2] at h
      simp only [Out.error.injEq] at h; subst h
      obtain ⟨n, hn1, hn2⟩ := pass2_go_error p1 p1.segments [] [] p1.ctx e2 h2
      rcases hlines n hn2 with hl | ⟨x, hx, _⟩
      · exact Or.inl ⟨n, hn1, hsub n hl⟩
      · cases hx
    | panic p => rw [h2] at h; simp at h
    | oof => rw [h2] at h; simp at h
  | error e1 =>
    rw [h1] at h
    simp only [Out.error.injEq] at h; subst h
    rcases (pass1_go p0.messages p0.ctx.device _ 0 p0.ctx.device.ramStart 0 [] p0.ctx).1 e1 h1 with ⟨n, hn1, hn2⟩ | hu
    · exact Or.inl ⟨n, hn1, hsub n hn2⟩
    · exact Or.inr hu
  | panic p => rw [h1] at h; simp at h
  | oof => rw [h1] at h; simp at h

end Avra.Props.C15b
