/-
  INDEPENDENT statement of the AVR assembler operator table on 64-bit signed integers (C05).
  Values are mathematical integers in the i64 range; bit operations are stated the textbook way,
  through the unsigned 64-bit representation `u64` and back (`s64`) with the bitwise operations
  of the natural numbers — no `BitVec`, nothing taken from the model.
-/
import Avra.Ast
namespace Avra.Spec
open Avra

def two63 : Int := 9223372036854775808
def two64 : Nat := 18446744073709551616

/-- fits a 64-bit signed integer -/
def fits (v : Int) : Bool := -two63 ≤ v && v < two63

/-- unsigned 64-bit representation (two's complement) -/
def u64 (v : Int) : Nat := (v % (two64 : Int)).toNat

/-- signed reading of an unsigned 64-bit pattern -/
def s64 (n : Nat) : Int := if n < 9223372036854775808 then (n : Int) else (n : Int) - (two64 : Int)

def bool01 (b : Bool) : Int := if b then 1 else 0

/-- the 18 binary operators: `none` = the build must fail -/
def binop : BinOp → Int → Int → Option Int
  -- arithmetic: exact result, or failure when it does not fit
  | .add, a, b => if fits (a + b) then some (a + b) else none
  | .sub, a, b => if fits (a - b) then some (a - b) else none
  | .mul, a, b => if fits (a * b) then some (a * b) else none
  -- division truncates toward zero; by zero and MIN / −1 fail
  | .div, a, b => if b = 0 then none else if fits (Int.tdiv a b) then some (Int.tdiv a b) else none
  -- remainder has the sign of the dividend; by zero fails; MIN % −1 is treated like the
  -- overflowing division it belongs to (decision recorded in DESIGN.md)
  | .rem, a, b => if b = 0 then none else if a = -two63 ∧ b = -1 then none else some (Int.tmod a b)
  -- bitwise, on the two's complement representation
  | .band, a, b => some (s64 (u64 a &&& u64 b))
  | .bor, a, b => some (s64 (u64 a ||| u64 b))
  | .bxor, a, b => some (s64 (u64 a ^^^ u64 b))
  -- shifts: count 0..63; left shift drops the bits shifted out; right shift is arithmetic
  | .shl, a, n => if 0 ≤ n ∧ n ≤ 63 then some (s64 (u64 a * 2 ^ n.toNat % two64)) else none
  | .shr, a, n => if 0 ≤ n ∧ n ≤ 63 then some (a / 2 ^ n.toNat) else none
  -- comparisons and logical operators yield 0 or 1
  | .lt, a, b => some (bool01 (a < b))
  | .le, a, b => some (bool01 (a ≤ b))
  | .gt, a, b => some (bool01 (a > b))
  | .ge, a, b => some (bool01 (a ≥ b))
  | .eq, a, b => some (bool01 (a = b))
  | .ne, a, b => some (bool01 (a ≠ b))
  | .land, a, b => some (bool01 (a ≠ 0 ∧ b ≠ 0))
  | .lor, a, b => some (bool01 (a ≠ 0 ∨ b ≠ 0))

/-- the 3 unary operators -/
def unop : UnOp → Int → Option Int
  | .minus, a => if fits (-a) then some (-a) else none
  | .bnot, a => some (-a - 1)          -- bitwise complement in two's complement
  | .lnot, a => some (bool01 (a = 0))

/-- bits lo .. lo+n-1 of the two's complement representation -/
def bitsOf (v : Int) (lo n : Nat) : Int := ((u64 v / 2 ^ lo % 2 ^ n : Nat) : Int)

/-- number of significant bits of the unsigned representation -/
def bitLength : Nat → Nat → Nat
  | 0, _ => 0
  | f + 1, n => if n = 0 then 0 else bitLength f (n / 2) + 1

/-- the byte / word functions, by lower-case name -/
def func (name : Str) (v : Int) : Option Int :=
  if name = "low".toList then some (bitsOf v 0 8)
  else if name = "high".toList ∨ name = "byte2".toList then some (bitsOf v 8 8)
  else if name = "byte3".toList then some (bitsOf v 16 8)
  else if name = "byte4".toList then some (bitsOf v 24 8)
  else if name = "lwrd".toList then some (bitsOf v 0 16)
  else if name = "hwrd".toList then some (bitsOf v 16 16)
  else if name = "page".toList then some (bitsOf v 16 5)
  else if name = "exp2".toList then (if 0 ≤ v ∧ v ≤ 63 then some (s64 (2 ^ v.toNat % two64)) else none)
  else if name = "log2".toList then some ((bitLength 65 (u64 v) : Nat) : Int)
  else none

/-- value of an expression given the values of its symbols; `none` = the build must fail -/
def eval (sym : Str → Option Int) : Expr → Option Int
  | .ident n => sym n
  | .const v => some v
  | .func (.ident name) arg =>
    match eval sym arg with
    | some v => func (lower name) v
    | none => none
  | .func _ _ => none
  | .bin op l r =>
    match eval sym l, eval sym r with
    | some a, some b => binop op a b
    | _, _ => none
  | .un op e =>
    match eval sym e with
    | some a => unop op a
    | none => none

/-- the documented precedence table: level (higher binds tighter) of every binary operator; the
    three unary operators bind tighter than all of them; all binary operators associate left -/
def level : BinOp → Nat
  | .lor => 1 | .land => 2 | .bor => 3 | .bxor => 4 | .band => 5
  | .eq | .ne => 6
  | .lt | .le | .gt | .ge => 7
  | .shl | .shr => 8
  | .add | .sub => 9
  | .mul | .div | .rem => 10

end Avra.Spec
