/-
  INDEPENDENT Intel HEX reader (the spec side of C07).  It never looks at how the writer works:
  split into lines on CR/LF, ignore blank lines, parse ":" + hex pairs, verify length and
  checksum, interpret types 00 (data), 01 (EOF), 02 (extended segment address), 04 (extended
  linear address); every address may be written at most once; exactly one EOF and it is last.
  The result is the list of (address, byte) pairs in file order.
-/
import Avra.Basic
namespace Avra.Spec.Hex
open Avra

def hexVal (c : Char) : Option Nat :=
  if '0' ≤ c ∧ c ≤ '9' then some (c.toNat - '0'.toNat)
  else if 'A' ≤ c ∧ c ≤ 'F' then some (c.toNat - 'A'.toNat + 10)
  else if 'a' ≤ c ∧ c ≤ 'f' then some (c.toNat - 'a'.toNat + 10)
  else none

/-- pairs of hex digits → bytes -/
def hexBytes : Str → Option (List Nat)
  | [] => some []
  | [_] => none
  | a :: b :: rest =>
    match hexVal a, hexVal b, hexBytes rest with
    | some x, some y, some bs => some ((x * 16 + y) :: bs)
    | _, _, _ => none

/-- split on CR and LF; empty pieces dropped -/
def splitLines (s : Str) : List Str :=
  let rec go (cur : Str) : Str → List Str
    | [] => if cur.isEmpty then [] else [cur.reverse]
    | c :: cs =>
      if c = '\r' ∨ c = '\n' then (if cur.isEmpty then go [] cs else cur.reverse :: go [] cs)
      else go (c :: cur) cs
  go [] s

inductive Rec
  | data (addr16 : Nat) (bytes : List Nat)
  | eof
  | extSeg (v : Nat)
  | extLin (v : Nat)
  deriving Repr, DecidableEq

/-- one record line: well-formed, length field and checksum verified -/
def parseRecord (l : Str) : Option Rec :=
  match l with
  | ':' :: hs =>
    match hexBytes hs with
    | some (len :: ah :: al :: t :: rest) =>
      if rest.length ≠ len + 1 then none
      else if (len + ah + al + t + rest.foldl (· + ·) 0) % 256 ≠ 0 then none
      else
        let payload := rest.take len
        match t with
        | 0 => some (.data (ah * 256 + al) payload)
        | 1 => if len = 0 then some .eof else none
        | 2 => match payload with | [h, lo] => some (.extSeg (h * 256 + lo)) | _ => none
        | 4 => match payload with | [h, lo] => some (.extLin (h * 256 + lo)) | _ => none
        | _ => none
    | _ => none
  | _ => none

/-- (address, byte) pairs of a data record under the base in force -/
def place (base : Nat) (a16 : Nat) : Nat → List Nat → List (Nat × Nat)
  | _, [] => []
  | i, b :: bs => (base + (a16 + i) % 65536, b) :: place base a16 (i + 1) bs

/-- interpret the records: cells in file order; `none` when the file is malformed (EOF missing,
    not last, or twice) -/
def interpret : List Rec → Nat → Option (List (Nat × Nat))
  | [], _ => none                      -- no EOF
  | [.eof], _ => some []
  | .eof :: _ :: _, _ => none          -- EOF not last
  | .data a bs :: rest, base => (interpret rest base).map fun cells => place base a 0 bs ++ cells
  | .extSeg v :: rest, _ => interpret rest (v * 16)
  | .extLin v :: rest, _ => interpret rest (v * 65536)

def allSome {α : Type} : List (Option α) → Option (List α)
  | [] => some []
  | none :: _ => none
  | some a :: rest => (allSome rest).map (a :: ·)

def noDup : List Nat → Bool
  | [] => true
  | a :: rest => !rest.contains a && noDup rest

/-- the records of a file: every non-blank line must be a well-formed record -/
def records (file : Str) : Option (List Rec) := allSome ((splitLines file).map parseRecord)

/-- cells of a well-formed file, in file order -/
def readCells (file : Str) : Option (List (Nat × Nat)) :=
  match records file with
  | none => none
  | some recs => interpret recs 0

/-- the reader: cells of a well-formed file in which no address is written twice -/
def read (file : Str) : Option (List (Nat × Nat)) :=
  match readCells file with
  | none => none
  | some cells => if noDup (cells.map (·.1)) then some cells else none

/-- byte `i` of the image at address `a + i` -/
def cellsAt : Nat → List Nat → List (Nat × Nat)
  | _, [] => []
  | a, b :: bs => (a, b) :: cellsAt (a + 1) bs

/-- what the property demands of the cells: byte `i` of the image at address `i`, nothing else -/
def imageCells (img : List Nat) : List (Nat × Nat) := cellsAt 0 img

end Avra.Spec.Hex
