/-
  INDEPENDENT statement of C13: which device feature flags an instruction (mnemonic + addressing
  form) needs.  `requires` lists the `DisabledOptions` that must all be absent for the instruction
  to exist on the device — transcribed from the property statement and the comments of the
  device table, not from `check_operation`.
-/
import Avra.Ast
namespace Avra.Spec
open Avra

/-- flags an index operand needs: the pointer register, and "smallest cores have no
    displacement addressing" -/
def indexRequires : IndexOps → List DisOpt
  | .none .x | .postInc .x | .preDec .x => [.noXreg]
  | .none .y | .postInc .y | .preDec .y => [.noYreg]
  | .none .z | .postInc .z | .preDec .z => []
  | .postIncE .x _ => [.noXreg, .tiny1x]
  | .postIncE .y _ => [.noYreg, .tiny1x]
  | .postIncE .z _ => [.tiny1x]

def argRequires : IOp → List DisOpt
  | .index i => indexRequires i
  | _ => []

/-- the flags whose presence in the device's disabled set removes the instruction -/
def requires (op : Op) (args : List IOp) : List DisOpt :=
  match op with
  -- multiply family
  | .mul | .muls | .mulsu | .fmul | .fmuls | .fmulsu => [.noMul]
  -- jmp / call
  | .jmp | .call => [.noJmp]
  | .movw => [.noMovw]
  -- lpm / elpm / spm forms
  | .lpm => .noLpm :: (if args.isEmpty then [] else [.noLpmX])
  | .elpm => .noElpm :: (if args.isEmpty then [] else [.noElpmX])
  | .spm => [.noSpm]
  | .break => [.noBreak]
  | .eijmp => [.noEijmp]
  | .eicall => [.noEicall]
  -- the word and stack instructions of the smallest cores
  | .adiw | .sbiw => [.tiny1x, .avr8l]
  | .ijmp | .icall | .lds | .sts | .push | .pop => [.tiny1x]
  -- pointer forms
  | .ldd | .std => .tiny1x :: args.flatMap argRequires
  | .ld | .st => args.flatMap argRequires
  | _ => []

/-- the instruction exists on a device with these disabled options -/
def allowed (disabled : List DisOpt) (op : Op) (args : List IOp) : Bool :=
  (requires op args).all fun f => !disabled.contains f

end Avra.Spec
