/-
  Spec-side names of the mnemonics (independent of the grammar model): used by the oracle
  driver to turn "ENC <core> <mnemonic> <addr> <operands>" requests into `Isa.surface` calls.
-/
import Avra.Isa.Surface
namespace Avra.Spec
open Avra Avra.Isa

def branchNames : List (String × BranchT) :=
  [("eq", .eq), ("ne", .ne), ("cs", .cs), ("cc", .cc), ("sh", .sh), ("lo", .lo), ("mi", .mi), ("pl", .pl),
   ("ge", .ge), ("lt", .lt), ("hs", .hs), ("hc", .hc), ("ts", .ts), ("tc", .tc), ("vs", .vs), ("vc", .vc),
   ("ie", .ie), ("id", .id), ("bs", .bs), ("bc", .bc)]

def flagNames : List (String × SFlag) :=
  [("c", .c), ("z", .z), ("n", .n), ("v", .v), ("s", .s), ("h", .h), ("t", .t), ("i", .i)]

def plainNames : List (String × Op) :=
  [("add", .add), ("adc", .adc), ("adiw", .adiw), ("sub", .sub), ("subi", .subi), ("sbc", .sbc), ("sbci", .sbci),
   ("sbiw", .sbiw), ("and", .and), ("andi", .andi), ("or", .or), ("ori", .ori), ("eor", .eor), ("com", .com),
   ("neg", .neg), ("sbr", .sbr), ("cbr", .cbr), ("inc", .inc), ("dec", .dec), ("tst", .tst), ("clr", .clr),
   ("ser", .ser), ("mul", .mul), ("muls", .muls), ("mulsu", .mulsu), ("fmul", .fmul), ("fmuls", .fmuls),
   ("fmulsu", .fmulsu), ("rjmp", .rjmp), ("ijmp", .ijmp), ("eijmp", .eijmp), ("jmp", .jmp), ("rcall", .rcall),
   ("icall", .icall), ("eicall", .eicall), ("call", .call), ("ret", .ret), ("reti", .reti), ("cpse", .cpse),
   ("cp", .cp), ("cpc", .cpc), ("cpi", .cpi), ("sbic", .sbic), ("sbis", .sbis), ("sbrc", .sbrc), ("sbrs", .sbrs),
   ("mov", .mov), ("movw", .movw), ("ldi", .ldi), ("lds", .lds), ("ld", .ld), ("ldd", .ldd), ("sts", .sts),
   ("st", .st), ("std", .std), ("lpm", .lpm), ("elpm", .elpm), ("spm", .spm), ("in", .in), ("out", .out),
   ("cbi", .cbi), ("sbi", .sbi), ("push", .push), ("pop", .pop), ("lsl", .lsl), ("lsr", .lsr), ("rol", .rol),
   ("ror", .ror), ("asr", .asr), ("swap", .swap), ("bset", .bset), ("bclr", .bclr), ("bst", .bst), ("bld", .bld),
   ("break", .break), ("nop", .nop), ("sleep", .sleep), ("wdr", .wdr)]

def lookupS {α : Type} (k : String) : List (String × α) → Option α
  | [] => none
  | (k', v) :: rest => if k' == k then some v else lookupS k rest

/-- mnemonic (lower case) → operation; flags set/clear and conditional branches by prefix -/
def opOfMnemonic (m : String) : Option Op :=
  match lookupS m plainNames with
  | some o => some o
  | none =>
    if m.startsWith "br" then (lookupS (m.drop 2).toString branchNames).map .br
    else if m.startsWith "se" then (lookupS (m.drop 2).toString flagNames).map .se
    else if m.startsWith "cl" then (lookupS (m.drop 2).toString flagNames).map .cl
    else none

def reg16OfChar : Char → Option Reg16
  | 'X' => some .x | 'Y' => some .y | 'Z' => some .z
  | _ => none

/-- operand token of the oracle protocol: r<n> | v<int> | bad | iX | iX+ | i-X | iY+q<int> | iY+q? -/
def argOfToken (t : String) : Option AArg :=
  if t == "bad" then some .bad
  else if t.startsWith "r" then (t.drop 1).toString.toNat?.map .reg
  else if t.startsWith "v" then (t.drop 1).toString.toInt?.map .val
  else if t.startsWith "i-" then
    match (t.drop 2).toString.toList with
    | [c] => (reg16OfChar c).map fun r => .idx (.preDec r)
    | _ => none
  else if t.startsWith "i" then
    match (t.drop 1).toString.toList with
    | [c] => (reg16OfChar c).map fun r => .idx (.plain r)
    | [c, '+'] => (reg16OfChar c).map fun r => .idx (.postInc r)
    | c :: '+' :: 'q' :: rest =>
      match reg16OfChar c with
      | some r =>
        if rest == ['?'] then some (.idx (.disp r none))
        else (String.ofList rest).toInt?.map fun q => .idx (.disp r (some q))
      | none => none
    | _ => none
  else none

def hex4 (w : Nat) : String := String.ofList (hex2L (w / 256 % 256) ++ hex2L (w % 256))

/-- "ENC <core 0|1> <mnemonic> <addr> <operand tokens…>" → "W <words as 4 hex digits…>" | "ILLEGAL" -/
def encCommand (args : List String) : Option String :=
  match args with
  | core :: m :: addr :: toks =>
    match opOfMnemonic m, addr.toNat?, (toks.filter (· ≠ "")).mapM argOfToken with
    | some op, some a, some as =>
      match surface (core == "1") op as a with
      | some i => some ("W " ++ " ".intercalate ((encode i).map hex4))
      | none => some "ILLEGAL"
    | _, _, _ => some "BADREQ"
  | _ => some "BADREQ"

end Avra.Spec

namespace Avra.Spec
open Avra Avra.Isa

def disOptNames : List (String × DisOpt) :=
  [("NoMul", .noMul), ("NoJmp", .noJmp), ("NoXreg", .noXreg), ("NoYreg", .noYreg), ("Tiny1x", .tiny1x),
   ("NoLpm", .noLpm), ("NoLpmX", .noLpmX), ("NoElpm", .noElpm), ("NoElpmX", .noElpmX), ("NoSpm", .noSpm),
   ("NoEspm", .noEspm), ("NoMovw", .noMovw), ("NoBreak", .noBreak), ("NoEicall", .noEicall),
   ("NoEijmp", .noEijmp), ("Avr8l", .avr8l)]

/-- syntactic operand of the oracle protocol (same tokens as ENC) -/
def iopOfToken (t : String) : Option IOp :=
  match argOfToken t with
  | some (.reg n) => some (.r8 n)
  | some (.val v) => some (.e (.const v))
  | some (.idx (.plain r)) => some (.index (.none r))
  | some (.idx (.postInc r)) => some (.index (.postInc r))
  | some (.idx (.preDec r)) => some (.index (.preDec r))
  | some (.idx (.disp r q)) => some (.index (.postIncE r (.const (q.getD 0))))
  | _ => none

end Avra.Spec
