/-
  INDEPENDENT statement of C06: what the data directives place in memory.
-/
import Avra.Ast
namespace Avra.Spec
open Avra

/-- an evaluated data operand: a value, a string (its bytes), or something that fails -/
inductive DataOp
  | val (v : Int)
  | str (bytes : List Nat)
  | bad
  deriving Repr, DecidableEq

def widthOf : DataDefine → Nat
  | .db => 1 | .dw => 2 | .dd => 4 | .dq => 8

/-- byte `i` (0 = least significant) of the two's complement representation of `v` -/
def byteOf (v : Int) (i : Nat) : Nat := (v / (256 : Int) ^ i % 256).toNat

/-- the `w` bytes of `v`, least significant first -/
def leInt (w : Nat) (v : Int) : List Nat := (List.range w).map (byteOf v)

/-- a value fits an element of `w` bytes when it is a `w`-byte signed or unsigned number;
    an 8-byte element holds any 64-bit value -/
def fitsWidth (w : Nat) (v : Int) : Bool :=
  if w ≥ 8 then true else decide (-(2 : Int) ^ (8 * w - 1) ≤ v ∧ v ≤ (2 : Int) ^ (8 * w) - 1)

/-- bytes of one operand; strings only in `.db` -/
def elemBytes (dt : DataDefine) : DataOp → Option (List Nat)
  | .val v => if fitsWidth (widthOf dt) v then some (leInt (widthOf dt) v) else none
  | .str bs => if dt = .db then some bs else none
  | .bad => none

/-- a data line: its operands in source order; any failing operand fails the line -/
def lineBytes (dt : DataDefine) : List DataOp → Option (List Nat)
  | [] => some []
  | o :: more =>
    match elemBytes dt o, lineBytes dt more with
    | some b, some bs => some (b ++ bs)
    | _, _ => none

/-- in flash every `.db` line is padded with one zero byte when its length is odd; in EEPROM
    nothing is padded; in the data segment data directives are errors -/
def placedLine (seg : SegT) (dt : DataDefine) (ops : List DataOp) : Option (List Nat) :=
  match seg with
  | .data => none
  | .eeprom => lineBytes dt ops
  | .code => (lineBytes dt ops).map fun bs => if bs.length % 2 = 1 then bs ++ [0] else bs

end Avra.Spec
