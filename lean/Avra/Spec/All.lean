/-
  Spec-side commands of the driver (oracles used by the search step of tools/check.py).
-/
import Avra.Spec.HexReader
import Avra.Spec.Mnemonic
import Avra.Spec.Gate
namespace Avra.Spec
open Avra

/-- "GATE <disabled options, comma separated | -> <mnemonic> <operand tokens>" → ALLOW | DENY -/
def gateCommand (args : List String) : Option String :=
  match args with
  | opts :: m :: toks =>
    let dis := if opts == "-" then some [] else (opts.splitOn ",").mapM fun o => lookupS o disOptNames
    match dis, opOfMnemonic m, (toks.filter (· ≠ "")).mapM iopOfToken with
    | some d, some op, some as => some (if allowed d op as then "ALLOW" else "DENY")
    | _, _, _ => some "BADREQ"
  | _ => some "BADREQ"

def specCommand (kind : String) (args : List String) : Option String :=
  match kind with
  | "ENC" => encCommand args
  | "GATE" => gateCommand args
  | _ => none

end Avra.Spec
