/-
  Spec-side commands of the driver (oracles used by the search step of tools/check.py).
-/
import Avra.Spec.HexReader
namespace Avra.Spec
open Avra

def specCommand (kind : String) (args : List String) : Option String :=
  let _ := args
  match kind with
  | _ => none

end Avra.Spec
