/-
  Spec-side commands of the driver (oracles used by the search step of tools/check.py).
-/
import Avra.Spec.HexReader
import Avra.Spec.Mnemonic
namespace Avra.Spec
open Avra

def specCommand (kind : String) (args : List String) : Option String :=
  match kind with
  | "ENC" => encCommand args
  | _ => none

end Avra.Spec
