/-
  Spec-side commands of the driver (oracles used by the search step of tools/check.py).
-/
import Avra.Spec.HexReader
import Avra.Spec.Mnemonic
import Avra.Spec.Gate
import Avra.Spec.EvalCmd
namespace Avra.Spec
open Avra

/-- "GATE <disabled options, comma separated | -> <mnemonic> <operand tokens>" → ALLOW | DENY -/
def gateCommand (args : List String) : Option String :=
  match args with
  | opts :: m :: toks =>
    let dis := if opts == "-" then some [] else (opts.splitOn ",").mapM fun o => lookupS o disOptNames
    match dis, opOfMnemonic m, (toks.filter (· ≠ "")).mapM iopOfToken with
    | some d, some op, some as => some (if allowed d op as then "ALLOW" else "DENY")
    | _, _, _ => some "BADREQ"
  | _ => some "BADREQ"

def unhexNats (s : String) : List Nat :=
  if s == "-" then [] else
  let rec go : List Char → List Nat
    | a :: b :: rest => ((Hex.hexVal a).getD 0 * 16 + (Hex.hexVal b).getD 0) :: go rest
    | _ => []
  go s.toList

/-- "HEXCHECK <hex(file bytes)> <hex(image)>" : the independent reader on the file, compared with
    the image: MATCH | MISMATCH <n cells> | MALFORMED | DUPLICATE -/
def hexCheckCommand (args : List String) : Option String :=
  match args with
  | [file, img] =>
    let f := (unhexNats file).map Char.ofNat
    let image := unhexNats img
    match Hex.readCells f with
    | none => some "MALFORMED"
    | some cells =>
      if cells == Hex.imageCells image then some "MATCH"
      else if cells.length ≤ 4096 ∧ !Hex.noDup (cells.map (·.1)) then some "DUPLICATE"
      else some s!"MISMATCH {cells.length}"
  | _ => some "BADREQ"

def specCommand (kind : String) (args : List String) : Option String :=
  match kind with
  | "ENC" => encCommand args
  | "GATE" => gateCommand args
  | "HEXCHECK" => hexCheckCommand args
  | "EVAL" => evalCommand args
  | "DATA" => dataCommand args
  | _ => none

end Avra.Spec
