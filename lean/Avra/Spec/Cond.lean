/-
  INDEPENDENT statement of C08: conditional constructs as trees, and what "the selected branch"
  is.  A construct is a head line (`.if/.ifdef/.ifndef`), a body, any number of `.elif` arms, an
  optional `.else` arm and the `.endif` line; bodies are lists of blocks again.  Nothing here
  knows how the assembler skips lines.
-/
import Avra.Basic
namespace Avra.Spec
open Avra

/-- a source line: 0-based index in its file and its text -/
abbrev Line := Nat × Str

mutual
inductive Block
  | plain (l : Line)
  | cond (hd : Line) (body : Blocks) (arms : Arms) (els : ElseArm) (endl : Line)
inductive Blocks
  | nil
  | cons (b : Block) (bs : Blocks)
inductive Arms
  | nil
  | cons (l : Line) (body : Blocks) (rest : Arms)
inductive ElseArm
  | none
  | some (l : Line) (body : Blocks)
end

mutual
/-- the program text of a tree: every line, in order -/
def Block.flatten : Block → List Line
  | .plain l => [l]
  | .cond hd body arms els endl => hd :: (body.flatten ++ (arms.flatten ++ (els.flatten ++ [endl])))
def Blocks.flatten : Blocks → List Line
  | .nil => []
  | .cons b bs => b.flatten ++ bs.flatten
def Arms.flatten : Arms → List Line
  | .nil => []
  | .cons l body rest => l :: (body.flatten ++ rest.flatten)
def ElseArm.flatten : ElseArm → List Line
  | .none => []
  | .some l body => l :: body.flatten
end

/-- outcome of assembling a line or evaluating a condition, abstractly: a new state, or a
    failure of some kind `F` -/
inductive Res (St F : Type)
  | ok (st : St)
  | fail (e : F)

mutual
/-- C08's reference semantics, for any notion of state: assemble the plain lines of the selected
    branches in order and nothing else.  `exec st l` assembles a plain line; `holds st l`
    evaluates the condition of a head or `.elif` line in the current state (it may fail, e.g.
    undefined symbol; it may also change the state).  The FIRST branch whose condition holds is
    selected; `.else` when none does.  (`Arms.run` reports whether one of the `.elif` arms ran.) -/
def Block.run {St F : Type} (exec : St → Line → Res St F) (holds : St → Line → Res (St × Bool) F) :
    Block → St → Res St F
  | .plain l, st => exec st l
  | .cond hd body arms els _, st =>
    match holds st hd with
    | .fail e => .fail e
    | .ok (st, true) => body.run exec holds st
    | .ok (st, false) =>
      match arms.run exec holds st with
      | .fail e => .fail e
      | .ok (st, true) => .ok st
      | .ok (st, false) => els.run exec holds st
def Blocks.run {St F : Type} (exec : St → Line → Res St F) (holds : St → Line → Res (St × Bool) F) :
    Blocks → St → Res St F
  | .nil, st => .ok st
  | .cons b bs, st =>
    match b.run exec holds st with
    | .ok st => bs.run exec holds st
    | .fail e => .fail e
def Arms.run {St F : Type} (exec : St → Line → Res St F) (holds : St → Line → Res (St × Bool) F) :
    Arms → St → Res (St × Bool) F
  | .nil, st => .ok (st, false)
  | .cons l body rest, st =>
    match holds st l with
    | .fail e => .fail e
    | .ok (st, true) =>
      match body.run exec holds st with
      | .ok st => .ok (st, true)
      | .fail e => .fail e
    | .ok (st, false) => rest.run exec holds st
def ElseArm.run {St F : Type} (exec : St → Line → Res St F) (holds : St → Line → Res (St × Bool) F) :
    ElseArm → St → Res St F
  | .none, st => .ok st
  | .some _ body, st => body.run exec holds st
end

end Avra.Spec
