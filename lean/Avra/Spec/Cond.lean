/-
  INDEPENDENT statement of C08: conditional constructs as trees, and what "the selected branch"
  is.  A construct is a head line (`.if/.ifdef/.ifndef`), a body, any number of `.elif` arms, an
  optional `.else` arm and the `.endif` line; bodies are lists of blocks again.  Nothing here
  knows how the assembler skips lines.
-/
import Avra.Basic
namespace Avra.Spec
open Avra

/-- a source line: 0-based index in its file and its text -/
abbrev Line := Nat × Str

mutual
inductive Block
  | plain (l : Line)
  | cond (hd : Line) (body : Blocks) (arms : Arms) (els : ElseArm) (endl : Line)
inductive Blocks
  | nil
  | cons (b : Block) (bs : Blocks)
inductive Arms
  | nil
  | cons (l : Line) (body : Blocks) (rest : Arms)
inductive ElseArm
  | none
  | some (l : Line) (body : Blocks)
end

mutual
/-- the program text of a tree: every line, in order -/
def Block.flatten : Block → List Line
  | .plain l => [l]
  | .cond hd body arms els endl => hd :: (body.flatten ++ (arms.flatten ++ (els.flatten ++ [endl])))
def Blocks.flatten : Blocks → List Line
  | .nil => []
  | .cons b bs => b.flatten ++ bs.flatten
def Arms.flatten : Arms → List Line
  | .nil => []
  | .cons l body rest => l :: (body.flatten ++ rest.flatten)
def ElseArm.flatten : ElseArm → List Line
  | .none => []
  | .some l body => l :: body.flatten
end

/-- outcome of assembling a line or evaluating a condition, abstractly: a new state, or a
    failure of some kind `F` -/
inductive Res (St F : Type)
  | ok (st : St)
  | fail (e : F)

mutual
/-- C08's reference semantics, for any notion of state: assemble the plain lines of the selected
    branches in order and nothing else.  `exec st l` assembles a plain line; `holds st l`
    evaluates the condition of a head or `.elif` line in the current state (it may fail, e.g.
    undefined symbol; it may also change the state).  The FIRST branch whose condition holds is
    selected; `.else` when none does.  (`Arms.run` reports whether one of the `.elif` arms ran.) -/
def Block.run {St F : Type} (exec : St → Line → Res St F) (holds : St → Line → Res (St × Bool) F) :
    Block → St → Res St F
  | .plain l, st => exec st l
  | .cond hd body arms els _, st =>
    match holds st hd with
    | .fail e => .fail e
    | .ok (st, true) => body.run exec holds st
    | .ok (st, false) =>
      match arms.run exec holds st with
      | .fail e => .fail e
      | .ok (st, true) => .ok st
      | .ok (st, false) => els.run exec holds st
def Blocks.run {St F : Type} (exec : St → Line → Res St F) (holds : St → Line → Res (St × Bool) F) :
    Blocks → St → Res St F
  | .nil, st => .ok st
  | .cons b bs, st =>
    match b.run exec holds st with
    | .ok st => bs.run exec holds st
    | .fail e => .fail e
def Arms.run {St F : Type} (exec : St → Line → Res St F) (holds : St → Line → Res (St × Bool) F) :
    Arms → St → Res (St × Bool) F
  | .nil, st => .ok (st, false)
  | .cons l body rest, st =>
    match holds st l with
    | .fail e => .fail e
    | .ok (st, true) =>
      match body.run exec holds st with
      | .ok st => .ok (st, true)
      | .fail e => .fail e
    | .ok (st, false) => rest.run exec holds st
def ElseArm.run {St F : Type} (exec : St → Line → Res St F) (holds : St → Line → Res (St × Bool) F) :
    ElseArm → St → Res St F
  | .none, st => .ok st
  | .some _ body, st => body.run exec holds st
end

end Avra.Spec

namespace Avra.Spec
open Avra

/-! ### the selected lines ("the program with the unselected lines deleted") -/

mutual
/-- like `run`, also returning the plain lines that were assembled, in order -/
def Block.sel {St F : Type} (exec : St → Line → Res St F) (holds : St → Line → Res (St × Bool) F) :
    Block → St → Res (St × List Line) F
  | .plain l, st =>
    match exec st l with
    | .ok st' => .ok (st', [l])
    | .fail e => .fail e
  | .cond hd body arms els _, st =>
    match holds st hd with
    | .fail e => .fail e
    | .ok (st, true) => body.sel exec holds st
    | .ok (st, false) =>
      match arms.sel exec holds st with
      | .fail e => .fail e
      | .ok (st, ls, true) => .ok (st, ls)
      | .ok (st, _, false) => els.sel exec holds st
def Blocks.sel {St F : Type} (exec : St → Line → Res St F) (holds : St → Line → Res (St × Bool) F) :
    Blocks → St → Res (St × List Line) F
  | .nil, st => .ok (st, [])
  | .cons b bs, st =>
    match b.sel exec holds st with
    | .ok (st, l1) =>
      match bs.sel exec holds st with
      | .ok (st, l2) => .ok (st, l1 ++ l2)
      | .fail e => .fail e
    | .fail e => .fail e
def Arms.sel {St F : Type} (exec : St → Line → Res St F) (holds : St → Line → Res (St × Bool) F) :
    Arms → St → Res (St × List Line × Bool) F
  | .nil, st => .ok (st, [], false)
  | .cons l body rest, st =>
    match holds st l with
    | .fail e => .fail e
    | .ok (st, true) =>
      match body.sel exec holds st with
      | .ok (st, ls) => .ok (st, ls, true)
      | .fail e => .fail e
    | .ok (st, false) => rest.sel exec holds st
def ElseArm.sel {St F : Type} (exec : St → Line → Res St F) (holds : St → Line → Res (St × Bool) F) :
    ElseArm → St → Res (St × List Line) F
  | .none, st => .ok (st, [])
  | .some _ body, st => body.sel exec holds st
end

mutual
/-- the lines whose condition is evaluated: heads and `.elif` lines -/
def Block.condLines : Block → List Line
  | .plain _ => []
  | .cond hd body arms els _ => hd :: (body.condLines ++ (arms.condLines ++ els.condLines))
def Blocks.condLines : Blocks → List Line
  | .nil => []
  | .cons b bs => b.condLines ++ bs.condLines
def Arms.condLines : Arms → List Line
  | .nil => []
  | .cons l body rest => l :: (body.condLines ++ rest.condLines)
def ElseArm.condLines : ElseArm → List Line
  | .none => []
  | .some _ body => body.condLines
end

/-- assembling a list of plain lines one after the other -/
def runLines {St F : Type} (exec : St → Line → Res St F) : List Line → St → Res St F
  | [], st => .ok st
  | l :: ls, st =>
    match exec st l with
    | .ok st' => runLines exec ls st'
    | .fail e => .fail e

/-- a list of plain lines as a tree -/
def plainBlocks : List Line → Blocks
  | [] => .nil
  | l :: ls => .cons (.plain l) (plainBlocks ls)

theorem runLines_append {St F : Type} (exec : St → Line → Res St F) : ∀ (l1 l2 : List Line) (s s1 : St),
    runLines exec l1 s = .ok s1 → runLines exec (l1 ++ l2) s = runLines exec l2 s1 := by
  intro l1
  induction l1 with
  | nil => intro l2 s s1 h; simp only [runLines, Res.ok.injEq] at h; subst h; rfl
  | cons l ls ih =>
    intro l2 s s1 h
    simp only [List.cons_append, runLines] at h ⊢
    cases he : exec s l with
    | ok s' => rw [he] at h; exact ih l2 s' s1 h
    | fail e => rw [he] at h; cases h

end Avra.Spec
