/-
  Oracle command EVAL: Spec.eval on a structured expression (prefix notation), so that the spec
  side never has to parse concrete syntax.
    tokens:  c<int> | s<int>  (symbol whose value is <int>) | sx (symbol that does not evaluate)
             b<op> L R | u<op> E | f<name> E
-/
import Avra.Spec.Eval
import Avra.Spec.Data
namespace Avra.Spec
open Avra

def binOfName : String → Option BinOp
  | "add" => some .add | "sub" => some .sub | "mul" => some .mul | "div" => some .div | "rem" => some .rem
  | "band" => some .band | "bxor" => some .bxor | "bor" => some .bor | "shl" => some .shl | "shr" => some .shr
  | "lt" => some .lt | "le" => some .le | "gt" => some .gt | "ge" => some .ge | "eq" => some .eq | "ne" => some .ne
  | "land" => some .land | "lor" => some .lor
  | _ => none

def unOfName : String → Option UnOp
  | "minus" => some .minus | "bnot" => some .bnot | "lnot" => some .lnot
  | _ => none

/-- symbols are encoded as identifiers "=<value>" (or "=?" for a failing one) so that the
    ordinary `Spec.eval` with a symbol function can be used -/
def symOf (n : Str) : Option Int :=
  match n with
  | '=' :: rest => (String.ofList rest).toInt?
  | _ => none

def parsePrefix : Nat → List String → Option (Expr × List String)
  | 0, _ => none
  | _ + 1, [] => none
  | f + 1, t :: rest =>
    if t.startsWith "c" then (t.drop 1).toString.toInt?.map fun v => (.const v, rest)
    else if t.startsWith "s" then some (.ident ('=' :: (t.drop 1).toString.toList), rest)
    else if t.startsWith "b" then
      match binOfName (t.drop 1).toString, parsePrefix f rest with
      | some op, some (l, r1) =>
        match parsePrefix f r1 with
        | some (r, r2) => some (.bin op l r, r2)
        | none => none
      | _, _ => none
    else if t.startsWith "u" then
      match unOfName (t.drop 1).toString, parsePrefix f rest with
      | some op, some (e, r1) => some (.un op e, r1)
      | _, _ => none
    else if t.startsWith "f" then
      match parsePrefix f rest with
      | some (e, r1) => some (.func (.ident (t.drop 1).toString.toList) e, r1)
      | none => none
    else none

def evalCommand (args : List String) : Option String :=
  let toks := args.filter (· ≠ "")
  match parsePrefix (toks.length + 1) toks with
  | some (e, []) =>
    match eval symOf e with
    | some v => some s!"V {v}"
    | none => some "FAIL"
  | _ => some "BADREQ"

end Avra.Spec

namespace Avra.Spec
open Avra

def dataOpOfToken (t : String) : Option DataOp :=
  if t == "bad" then some .bad
  else if t.startsWith "v" then (t.drop 1).toString.toInt?.map .val
  else if t.startsWith "s" then
    let rec go : List Char → List Nat
      | a :: b :: rest =>
        let hv (c : Char) : Nat := if c.isDigit then c.toNat - 48 else c.toNat - 87
        (hv a * 16 + hv b) :: go rest
      | _ => []
    some (.str (go (t.drop 1).toString.toList))
  else none

/-- "DATA <c|e|d> <db|dw|dd|dq> <operand tokens>" → "B <hex bytes>" | "FAIL" -/
def dataCommand (args : List String) : Option String :=
  match args with
  | seg :: dt :: toks =>
    let s : Option SegT := match seg with | "c" => some .code | "e" => some .eeprom | "d" => some .data | _ => none
    let d : Option DataDefine := match dt with | "db" => some .db | "dw" => some .dw | "dd" => some .dd | "dq" => some .dq | _ => none
    match s, d, (toks.filter (· ≠ "")).mapM dataOpOfToken with
    | some s, some d, some ops =>
      match placedLine s d ops with
      | some bs => some ("B " ++ String.ofList (bs.flatMap hex2L))
      | none => some "FAIL"
    | _, _, _ => some "BADREQ"
  | _ => some "BADREQ"

end Avra.Spec
