/-
  Basic definitions shared by model, spec and proofs.  Core Lean only.
-/
namespace Avra

/-- Text is a list of characters everywhere (peg works on `char`). -/
abbrev Str := List Char

def lowerChar (c : Char) : Char :=
  if 'A' ≤ c ∧ c ≤ 'Z' then Char.ofNat (c.toNat + 32) else c

def upperChar (c : Char) : Char :=
  if 'a' ≤ c ∧ c ≤ 'z' then Char.ofNat (c.toNat - 32) else c

/-- ASCII lower-casing (Rust `to_lowercase` restricted to the ASCII range; the grammar only
    lower-cases identifiers, which are ASCII). -/
def lower (s : Str) : Str := s.map lowerChar

def isDigit (c : Char) : Bool := '0' ≤ c && c ≤ '9'
def isAlpha (c : Char) : Bool := ('a' ≤ c && c ≤ 'z') || ('A' ≤ c && c ≤ 'Z')
def isIdentStart (c : Char) : Bool := isAlpha c || c == '_'
def isIdentChar (c : Char) : Bool := isAlpha c || isDigit c || c == '_'
def isHexDigit (c : Char) : Bool :=
  isDigit c || ('a' ≤ c && c ≤ 'f') || ('A' ≤ c && c ≤ 'F')
def isSpace (c : Char) : Bool := c == ' ' || c == '\t'

def digitVal (c : Char) : Nat :=
  if isDigit c then c.toNat - '0'.toNat
  else if 'a' ≤ c && c ≤ 'f' then c.toNat - 'a'.toNat + 10
  else if 'A' ≤ c && c ≤ 'F' then c.toNat - 'A'.toNat + 10
  else 0

/-- Value of a digit string in the given radix, most significant digit first. -/
def digitsVal (radix : Nat) (ds : Str) : Nat :=
  ds.foldl (fun acc c => acc * radix + digitVal c) 0

/-- i64 range -/
def i64Min : Int := -9223372036854775808
def i64Max : Int := 9223372036854775807
def inI64 (v : Int) : Bool := i64Min ≤ v && v ≤ i64Max

/-- Rust `v as uN` for an i64 `v`: reduction modulo 2^n. -/
def asU (n : Nat) (v : Int) : Nat := (v % (2 ^ n : Int)).toNat

/-- Rust `x as i64` for an u64 `x`. -/
def u64AsI64 (x : Nat) : Int :=
  if x < 2 ^ 63 then (x : Int) else (x : Int) - 2 ^ 64

/-- Rust `x as i8` for a u8 `x`. -/
def u8AsI8 (x : Nat) : Int := if x < 128 then (x : Int) else (x : Int) - 256

/-- little-endian bytes of the low `w` bytes of `x`. -/
def leBytes : Nat → Nat → List Nat
  | 0, _ => []
  | w + 1, x => (x % 256) :: leBytes w (x / 256)

def hexDigitU (n : Nat) : Char :=
  if n < 10 then Char.ofNat ('0'.toNat + n) else Char.ofNat ('A'.toNat + (n - 10))

def hexDigitL (n : Nat) : Char :=
  if n < 10 then Char.ofNat ('0'.toNat + n) else Char.ofNat ('a'.toNat + (n - 10))

/-- two upper-case hex digits of a byte (the `ihex` crate's `{:02X}`). -/
def hex2U (b : Nat) : Str := [hexDigitU (b / 16 % 16), hexDigitU (b % 16)]
def hex2L (b : Nat) : Str := [hexDigitL (b / 16 % 16), hexDigitL (b % 16)]

def bytesOk (bs : List Nat) : Prop := ∀ b ∈ bs, b < 256

/-- Decimal digits of a natural number (Rust `{}` of a non-negative integer). -/
def natToDec (n : Nat) : Str := (Nat.repr n).toList

def intToDec (v : Int) : Str :=
  if v < 0 then '-' :: natToDec v.natAbs else natToDec v.toNat

/-- association list lookup / insert (HashMap semantics: at most the first hit matters). -/
def alookup {α : Type} (k : Str) : List (Str × α) → Option α
  | [] => none
  | (k', v) :: rest => if k' = k then some v else alookup k rest

def ainsert {α : Type} (k : Str) (v : α) (m : List (Str × α)) : List (Str × α) :=
  (k, v) :: m.filter (fun p => p.1 ≠ k)

def aremove {α : Type} (k : Str) (m : List (Str × α)) : List (Str × α) :=
  m.filter (fun p => p.1 ≠ k)

/-- Binary-splitting universal check: `allIn p bits base` ⇔ ∀ i < 2^bits, p (base+i).
    Recursion depth is `bits`, so the kernel can evaluate it for 2^16 cases. -/
def allIn (p : Nat → Bool) : Nat → Nat → Bool
  | 0, base => p base
  | b + 1, base => allIn p b base && allIn p b (base + 2 ^ b)

theorem allIn_spec (p : Nat → Bool) : ∀ (b base : Nat), allIn p b base = true →
    ∀ i, i < 2 ^ b → p (base + i) = true := by
  intro b
  induction b with
  | zero =>
    intro base h i hi
    have : i = 0 := by simpa using hi
    subst this; simpa [allIn] using h
  | succ b ih =>
    intro base h i hi
    simp only [allIn, Bool.and_eq_true] at h
    by_cases hlt : i < 2 ^ b
    · exact ih base h.1 i hlt
    · have hge : 2 ^ b ≤ i := Nat.le_of_not_lt hlt
      have hi' : i - 2 ^ b < 2 ^ b := by
        have : 2 ^ (b + 1) = 2 ^ b + 2 ^ b := by rw [Nat.pow_succ]; omega
        omega
      have := ih (base + 2 ^ b) h.2 (i - 2 ^ b) hi'
      have e : base + 2 ^ b + (i - 2 ^ b) = base + i := by omega
      rwa [e] at this

end Avra
