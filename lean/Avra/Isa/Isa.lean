/-
  INDEPENDENT statement of the AVR instruction set encodings, transcribed from the AVR
  Instruction Set Manual: one 16-character bit pattern per instruction form, interpreted by one
  generic function.  Nothing here looks at how /repo encodes anything.

  A semantic instruction (`Instr`) carries its operands as natural numbers; `Instr.wf` states
  the ranges the ISA allows.
-/
import Avra.Basic
namespace Avra.Isa
open Avra

/-- value of the bits of `x` that the pattern marks with letter `c`, distributed MSB first:
    the i-th occurrence of `c` from the right receives bit i of `x`. -/
def placeField (pat : List Nat) (c : Nat) (x : Nat) : Nat :=
  -- walk from the least significant pattern position
  let rec go : List Nat → Nat → Nat → Nat → Nat
    | [], _, _, acc => acc
    | p :: ps, pos, k, acc =>
      if p = c then go ps (pos + 1) (k + 1) (acc + (x / 2 ^ k % 2) * 2 ^ pos)
      else go ps (pos + 1) k acc
  go pat.reverse 0 0 0

/-- the constant bits of a pattern -/
def patConst (pat : List Nat) : Nat :=
  let rec go : List Nat → Nat → Nat → Nat
    | [], _, acc => acc
    | p :: ps, pos, acc => go ps (pos + 1) (if p = 49 then acc + 2 ^ pos else acc)   -- 49 = '1' 
  go pat.reverse 0 0

open Lean in
/-- a pattern literal as written in the manual, e.g. "0000 11rd dddd rrrr", expanded at elaboration
    time into the list of the codes of its 16 characters (characters and string literals are slow
    to compare in the kernel; natural numbers are fast) -/
macro "pat!" s:str : term => do
  let cs := s.getString.toList.filter (· ≠ ' ')
  let elems ← cs.mapM fun c => `($(Syntax.mkNumLit (toString c.toNat)))
  `(([$(elems.toArray),*] : List Nat))

open Lean in
/-- the code of a field letter: fld!"d" -/
macro "fld!" s:str : term => pure (Syntax.mkNumLit (toString (s.getString.toList.headD ' ').toNat))

/-- a maximal run of pattern positions holding consecutive bits of one field:
    bits src .. src+len-1 of the field go to positions dst .. dst+len-1 of the word -/
structure Run where
  letter : Nat
  src : Nat
  len : Nat
  dst : Nat
  deriving Repr, DecidableEq

/-- how many positions with letter `c` precede (are less significant than) the current one -/
def countBefore (c : Nat) : List Nat → Nat
  | [] => 0
  | p :: ps => (if p = c then 1 else 0) + countBefore c ps

/-- one run per field bit, least significant position first (`seen` = positions already passed) -/
def bitRuns : List Nat → List Nat → Nat → List Run
  | [], _, _ => []
  | p :: ps, seen, pos =>
    if p = 48 ∨ p = 49 then bitRuns ps (p :: seen) (pos + 1)      -- '0' / '1'
    else { letter := p, src := countBefore p seen, len := 1, dst := pos } :: bitRuns ps (p :: seen) (pos + 1)

/-- merge adjacent runs of the same field -/
def mergeRuns (rs : List Run) : List Run :=
  (rs.foldl (fun (acc : List Run) r =>
    match acc with
    | last :: more =>
      if last.letter = r.letter ∧ last.src + last.len = r.src ∧ last.dst + last.len = r.dst
      then { last with len := last.len + r.len } :: more else r :: acc
    | [] => [r]) []).reverse

/-- the runs of a pattern.  `compile p` is a closed term for every pattern of this file: the
    kernel evaluates it once and caches it, so evaluating `word` costs a few operations. -/
def compile (pat : List Nat) : List Run := mergeRuns (bitRuns pat.reverse [] 0)

def fieldVal (fields : List (Nat × Nat)) (c : Nat) : Nat :=
  match fields with
  | [] => 0
  | (k, v) :: rest => if k = c then v else fieldVal rest c

/-- a word from a pattern and field values: the constant bits plus every run -/
def word (p : List Nat) (fields : List (Nat × Nat)) : Nat :=
  (compile p).foldl (fun acc r => acc + (fieldVal fields r.letter / 2 ^ r.src % 2 ^ r.len) * 2 ^ r.dst) (patConst p)

/-- the bit-by-bit reading of a pattern (`placeField`) and the run-based one agree; checked
    for every pattern of this file in `Avra.Props.C01` (`word_is_bitwise`). -/
def wordBitwise (p : List Nat) (fields : List (Nat × Nat)) : Nat :=
  fields.foldl (fun acc (c, x) => acc + placeField p c x) (patConst p)

inductive RROp | add | adc | sub | sbc | and | or | eor | cpse | cp | cpc | mov | mul
  deriving DecidableEq, Repr
inductive ImmOp | subi | sbci | andi | ori | cpi | ldi
  deriving DecidableEq, Repr
inductive OneOp | com | neg | inc | dec | push | pop | lsr | ror | asr | swap
  deriving DecidableEq, Repr
inductive MulfOp | mulsu | fmul | fmuls | fmulsu
  deriving DecidableEq, Repr
inductive IoBitOp | sbi | cbi | sbis | sbic
  deriving DecidableEq, Repr
inductive NoArgOp | ijmp | eijmp | icall | eicall | ret | reti | spm | «break» | nop | sleep | wdr
  deriving DecidableEq, Repr
/-- pointer addressing modes without displacement -/
inductive PtrMode | x | xInc | xDec | yInc | yDec | zInc | zDec
  deriving DecidableEq, Repr

/-- semantic instruction: canonical mnemonic + operands -/
inductive Instr
  | rr (op : RROp) (d r : Nat)                 -- d, r < 32
  | imm (op : ImmOp) (d k : Nat)               -- 16 ≤ d < 32, k < 256
  | one (op : OneOp) (d : Nat)                 -- d < 32
  | adiw (sub : Bool) (d k : Nat)              -- d ∈ {24,26,28,30}, k < 64
  | muls (d r : Nat)                           -- 16 ≤ d, r < 32
  | mulf (op : MulfOp) (d r : Nat)             -- 16 ≤ d, r < 24
  | rel (call : Bool) (k : Int)                -- −2048 ≤ k ≤ 2047
  | abs (call : Bool) (k : Nat)                -- k < 2^22
  | brb (clear : Bool) (s : Nat) (k : Int)     -- s < 8, −64 ≤ k ≤ 63
  | movw (d r : Nat)                           -- even, < 32
  | lds (d k : Nat) | sts (k r : Nat)          -- d < 32, k < 65536 (two words)
  | lds16 (d k : Nat) | sts16 (k r : Nat)      -- reduced core: 16 ≤ d < 32, 0x40 ≤ k ≤ 0xbf
  | ldp (d : Nat) (m : PtrMode) | stp (m : PtrMode) (r : Nat)
  | ldd (d : Nat) (z : Bool) (q : Nat) | std (z : Bool) (q : Nat) (r : Nat)   -- Y/Z + q, q < 64
  | lpm0 | elpm0
  | lpm (ext : Bool) (d : Nat) (inc : Bool)    -- (e)lpm Rd, Z / Z+
  | inp (d a : Nat) | out (a r : Nat)          -- a < 64
  | sbr (set : Bool) (r b : Nat)               -- sbrc / sbrs
  | bt (load : Bool) (r b : Nat)               -- bst / bld
  | iob (op : IoBitOp) (a b : Nat)             -- a < 32, b < 8
  | flag (clear : Bool) (s : Nat)              -- bset / bclr
  | noarg (op : NoArgOp)
  deriving DecidableEq, Repr

def Instr.wf : Instr → Bool
  | .rr _ d r => d < 32 && r < 32
  | .imm _ d k => 16 ≤ d && d < 32 && k < 256
  | .one _ d => d < 32
  | .adiw _ d k => (d == 24 || d == 26 || d == 28 || d == 30) && k < 64
  | .muls d r => 16 ≤ d && d < 32 && 16 ≤ r && r < 32
  | .mulf _ d r => 16 ≤ d && d < 24 && 16 ≤ r && r < 24
  | .rel _ k => -2048 ≤ k && k ≤ 2047
  | .abs _ k => k < 4194304
  | .brb _ s k => s < 8 && -64 ≤ k && k ≤ 63
  | .movw d r => d % 2 == 0 && r % 2 == 0 && d < 32 && r < 32
  | .lds d k => d < 32 && k < 65536
  | .sts k r => r < 32 && k < 65536
  | .lds16 d k => 16 ≤ d && d < 32 && 0x40 ≤ k && k ≤ 0xbf
  | .sts16 k r => 16 ≤ r && r < 32 && 0x40 ≤ k && k ≤ 0xbf
  | .ldp d _ => d < 32
  | .stp _ r => r < 32
  | .ldd d _ q => d < 32 && q < 64
  | .std _ q r => r < 32 && q < 64
  | .lpm0 | .elpm0 => true
  | .lpm _ d _ => d < 32
  | .inp d a => d < 32 && a < 64
  | .out a r => r < 32 && a < 64
  | .sbr _ r b => r < 32 && b < 8
  | .bt _ r b => r < 32 && b < 8
  | .iob _ a b => a < 32 && b < 8
  | .flag _ s => s < 8
  | .noarg _ => true

def rrPat : RROp → List Nat
  | .add  => pat!"0000 11rd dddd rrrr" | .adc  => pat!"0001 11rd dddd rrrr"
  | .sub  => pat!"0001 10rd dddd rrrr" | .sbc  => pat!"0000 10rd dddd rrrr"
  | .and  => pat!"0010 00rd dddd rrrr" | .or   => pat!"0010 10rd dddd rrrr"
  | .eor  => pat!"0010 01rd dddd rrrr" | .cpse => pat!"0001 00rd dddd rrrr"
  | .cp   => pat!"0001 01rd dddd rrrr" | .cpc  => pat!"0000 01rd dddd rrrr"
  | .mov  => pat!"0010 11rd dddd rrrr" | .mul  => pat!"1001 11rd dddd rrrr"

def immPat : ImmOp → List Nat
  | .subi => pat!"0101 KKKK dddd KKKK" | .sbci => pat!"0100 KKKK dddd KKKK"
  | .andi => pat!"0111 KKKK dddd KKKK" | .ori  => pat!"0110 KKKK dddd KKKK"
  | .cpi  => pat!"0011 KKKK dddd KKKK" | .ldi  => pat!"1110 KKKK dddd KKKK"

def onePat : OneOp → List Nat
  | .com  => pat!"1001 010d dddd 0000" | .neg  => pat!"1001 010d dddd 0001"
  | .inc  => pat!"1001 010d dddd 0011" | .dec  => pat!"1001 010d dddd 1010"
  | .push => pat!"1001 001d dddd 1111" | .pop  => pat!"1001 000d dddd 1111"
  | .lsr  => pat!"1001 010d dddd 0110" | .ror  => pat!"1001 010d dddd 0111"
  | .asr  => pat!"1001 010d dddd 0101" | .swap => pat!"1001 010d dddd 0010"

def mulfPat : MulfOp → List Nat
  | .mulsu  => pat!"0000 0011 0ddd 0rrr" | .fmul   => pat!"0000 0011 0ddd 1rrr"
  | .fmuls  => pat!"0000 0011 1ddd 0rrr" | .fmulsu => pat!"0000 0011 1ddd 1rrr"

def iobPat : IoBitOp → List Nat
  | .sbi  => pat!"1001 1010 AAAA Abbb" | .cbi  => pat!"1001 1000 AAAA Abbb"
  | .sbis => pat!"1001 1011 AAAA Abbb" | .sbic => pat!"1001 1001 AAAA Abbb"

def noargPat : NoArgOp → List Nat
  | .ijmp  => pat!"1001 0100 0000 1001" | .eijmp  => pat!"1001 0100 0001 1001"
  | .icall => pat!"1001 0101 0000 1001" | .eicall => pat!"1001 0101 0001 1001"
  | .ret   => pat!"1001 0101 0000 1000" | .reti   => pat!"1001 0101 0001 1000"
  | .spm   => pat!"1001 0101 1110 1000" | .break  => pat!"1001 0101 1001 1000"
  | .nop   => pat!"0000 0000 0000 0000" | .sleep  => pat!"1001 0101 1000 1000"
  | .wdr   => pat!"1001 0101 1010 1000"

/-- LD/ST with X, X+, −X, Y+, −Y, Z+, −Z : pat!"1001 00sd dddd mmmm" -/
def ptrBits : PtrMode → Nat
  | .x => 0b1100 | .xInc => 0b1101 | .xDec => 0b1110
  | .yInc => 0b1001 | .yDec => 0b1010 | .zInc => 0b0001 | .zDec => 0b0010

/-- two's complement of a signed displacement in `bits` bits -/
def twos (bits : Nat) (k : Int) : Nat := (k % (2 ^ bits : Int)).toNat

/-- the instruction words (one, or two for jmp/call and 32-bit lds/sts) -/
def encode : Instr → List Nat
  | .rr op d r => [word (rrPat op) [(fld!"d", d), (fld!"r", r)]]
  | .imm op d k => [word (immPat op) [(fld!"d", d - 16), (fld!"K", k)]]
  | .one op d => [word (onePat op) [(fld!"d", d)]]
  | .adiw sub d k =>
    [word (if sub then pat!"1001 0111 KKdd KKKK" else pat!"1001 0110 KKdd KKKK") [(fld!"d", (d - 24) / 2), (fld!"K", k)]]
  | .muls d r => [word (pat!"0000 0010 dddd rrrr") [(fld!"d", d - 16), (fld!"r", r - 16)]]
  | .mulf op d r => [word (mulfPat op) [(fld!"d", d - 16), (fld!"r", r - 16)]]
  | .rel call k => [word (if call then pat!"1101 kkkk kkkk kkkk" else pat!"1100 kkkk kkkk kkkk") [(fld!"k", twos 12 k)]]
  | .abs call k =>
    [word (if call then pat!"1001 010k kkkk 111k" else pat!"1001 010k kkkk 110k") [(fld!"k", k / 65536)], k % 65536]
  | .brb clear s k =>
    [word (if clear then pat!"1111 01kk kkkk ksss" else pat!"1111 00kk kkkk ksss") [(fld!"s", s), (fld!"k", twos 7 k)]]
  | .movw d r => [word (pat!"0000 0001 dddd rrrr") [(fld!"d", d / 2), (fld!"r", r / 2)]]
  | .lds d k => [word (pat!"1001 000d dddd 0000") [(fld!"d", d)], k]
  | .sts k r => [word (pat!"1001 001d dddd 0000") [(fld!"d", r)], k]
  -- reduced core: address bits a7..a0 with a7 = ¬a6 ; instruction holds a6 (bit 8), a5 a4
  -- (bits 10, 9), a3..a0: pattern pat!"1010 0kkk dddd kkkk", k = a5 a4 a6 a3 a2 a1 a0
  | .lds16 d k =>
    [word (pat!"1010 0kkk dddd kkkk") [(fld!"d", d - 16), (fld!"k", (k / 16 % 4) * 32 + (k / 64 % 2) * 16 + k % 16)]]
  | .sts16 k r =>
    [word (pat!"1010 1kkk dddd kkkk") [(fld!"d", r - 16), (fld!"k", (k / 16 % 4) * 32 + (k / 64 % 2) * 16 + k % 16)]]
  | .ldp d m => [word (pat!"1001 000d dddd mmmm") [(fld!"d", d), (fld!"m", ptrBits m)]]
  | .stp m r => [word (pat!"1001 001d dddd mmmm") [(fld!"d", r), (fld!"m", ptrBits m)]]
  | .ldd d z q => [word (if z then pat!"10q0 qq0d dddd 0qqq" else pat!"10q0 qq0d dddd 1qqq") [(fld!"d", d), (fld!"q", q)]]
  | .std z q r => [word (if z then pat!"10q0 qq1d dddd 0qqq" else pat!"10q0 qq1d dddd 1qqq") [(fld!"d", r), (fld!"q", q)]]
  | .lpm0 => [word (pat!"1001 0101 1100 1000") []]
  | .elpm0 => [word (pat!"1001 0101 1101 1000") []]
  | .lpm ext d inc => [word (pat!"1001 000d dddd 01ei") [(fld!"d", d), (fld!"e", if ext then 1 else 0), (fld!"i", if inc then 1 else 0)]]
  | .inp d a => [word (pat!"1011 0AAd dddd AAAA") [(fld!"d", d), (fld!"A", a)]]
  | .out a r => [word (pat!"1011 1AAd dddd AAAA") [(fld!"d", r), (fld!"A", a)]]
  | .sbr set r b => [word (if set then pat!"1111 111d dddd 0bbb" else pat!"1111 110d dddd 0bbb") [(fld!"d", r), (fld!"b", b)]]
  | .bt load r b => [word (if load then pat!"1111 100d dddd 0bbb" else pat!"1111 101d dddd 0bbb") [(fld!"d", r), (fld!"b", b)]]
  | .iob op a b => [word (iobPat op) [(fld!"A", a), (fld!"b", b)]]
  | .flag clear s => [word (if clear then pat!"1001 0100 1sss 1000" else pat!"1001 0100 0sss 1000") [(fld!"s", s)]]
  | .noarg op => [word (noargPat op) []]

/-- bytes of the words, low byte first -/
def bytes (ws : List Nat) : List Nat := ws.flatMap fun w => [w % 256, w / 256 % 256]

end Avra.Isa
