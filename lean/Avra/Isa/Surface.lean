/-
  INDEPENDENT legality spec: which mnemonic with which (already evaluated) operands denotes which
  AVR instruction, per the Instruction Set Manual — operand count and kinds, register classes,
  ranges, and the documented aliases (tst/clr/lsl/rol, ser, sbr/cbr, se*/cl*, br**).
  `none` = the ISA cannot encode it: the build must fail.
-/
import Avra.Ast
import Avra.Isa.Isa
namespace Avra.Isa
open Avra

/-- an operand after symbol resolution and evaluation -/
inductive AIndex
  | plain (r : Reg16)               -- X / Y / Z
  | postInc (r : Reg16)             -- X+ …
  | preDec (r : Reg16)              -- −X …
  | disp (r : Reg16) (q : Option Int)   -- Y+q ; `none` = the displacement does not evaluate
  deriving DecidableEq, Repr

inductive AArg
  | reg (n : Nat)                   -- a register (written as such or through a .def alias)
  | val (v : Int)                   -- an expression with this value
  | idx (i : AIndex)
  | bad                             -- an expression that does not evaluate / an unknown alias
  deriving DecidableEq, Repr

def branchFlag : BranchT → Option (Bool × Nat)   -- (branch if cleared?, flag number)
  | .eq => some (false, 1) | .ne => some (true, 1)
  | .cs => some (false, 0) | .cc => some (true, 0)
  | .lo => some (false, 0) | .sh => some (true, 0)
  | .mi => some (false, 2) | .pl => some (true, 2)
  | .lt => some (false, 4) | .ge => some (true, 4)
  | .hs => some (false, 5) | .hc => some (true, 5)
  | .ts => some (false, 6) | .tc => some (true, 6)
  | .vs => some (false, 3) | .vc => some (true, 3)
  | .ie => some (false, 7) | .id => some (true, 7)
  | .bs | .bc => none

def flagNum : SFlag → Nat
  | .c => 0 | .z => 1 | .n => 2 | .v => 3 | .s => 4 | .h => 5 | .t => 6 | .i => 7

def inRange (lo hi : Int) (v : Int) : Bool := lo ≤ v && v ≤ hi

/-- an 8-bit immediate may be written as −128..255; it denotes its low byte -/
def imm8 (v : Int) : Option Nat := if inRange (-128) 255 v then some (v % 256).toNat else none

def reg32 (n : Nat) : Option Nat := if n < 32 then some n else none

def ptrMode : AIndex → Option PtrMode
  | .plain .x => some .x | .postInc .x => some .xInc | .preDec .x => some .xDec
  | .postInc .y => some .yInc | .preDec .y => some .yDec
  | .postInc .z => some .zInc | .preDec .z => some .zDec
  | _ => none

/-- Y / Z with displacement (plain Y / Z is displacement 0) -/
def dispMode : AIndex → Option (Bool × Nat)     -- (Z?, q)
  | .plain .y => some (false, 0) | .plain .z => some (true, 0)
  | .disp .y (some q) => if inRange 0 63 q then some (false, q.toNat) else none
  | .disp .z (some q) => if inRange 0 63 q then some (true, q.toNat) else none
  | _ => none

def rrOp : Op → Option RROp
  | .add => some .add | .adc => some .adc | .sub => some .sub | .sbc => some .sbc
  | .and => some .and | .or => some .or | .eor => some .eor | .cpse => some .cpse
  | .cp => some .cp | .cpc => some .cpc | .mov => some .mov | .mul => some .mul
  | _ => none

def oneOp : Op → Option OneOp
  | .com => some .com | .neg => some .neg | .inc => some .inc | .dec => some .dec
  | .push => some .push | .pop => some .pop | .lsr => some .lsr | .ror => some .ror
  | .asr => some .asr | .swap => some .swap
  | _ => none

def noargOp : Op → Option NoArgOp
  | .ijmp => some .ijmp | .eijmp => some .eijmp | .icall => some .icall | .eicall => some .eicall
  | .ret => some .ret | .reti => some .reti | .spm => some .spm | .break => some .break
  | .nop => some .nop | .sleep => some .sleep | .wdr => some .wdr
  | _ => none

/-! operand shapes, one small function per family (kept small so that the kernel can evaluate
    them quickly) -/

def sRR (o : RROp) : List AArg → Option Instr
  | [.reg d, .reg r] =>
    match reg32 d, reg32 r with
    | some d, some r => some (.rr o d r)
    | _, _ => none
  | _ => none

/-- tst/clr/lsl/rol are and/eor/add/adc with both operands equal -/
def sRRsame (o : RROp) : List AArg → Option Instr
  | [.reg d] => (reg32 d).map fun d => .rr o d d
  | _ => none

def sOne (o : OneOp) : List AArg → Option Instr
  | [.reg d] => (reg32 d).map (.one o ·)
  | _ => none

/-- high register and 8-bit immediate; `f` maps the written constant to the encoded one -/
def sImm (o : ImmOp) (f : Nat → Nat) : List AArg → Option Instr
  | [.reg d, .val v] => if 16 ≤ d ∧ d < 32 then (imm8 v).map fun k => .imm o d (f k) else none
  | _ => none

def sSer : List AArg → Option Instr
  | [.reg d] => if 16 ≤ d ∧ d < 32 then some (.imm .ldi d 255) else none
  | _ => none

def sAdiw (sub : Bool) : List AArg → Option Instr
  | [.reg d, .val v] =>
    if (d = 24 ∨ d = 26 ∨ d = 28 ∨ d = 30) ∧ inRange 0 63 v then some (.adiw sub d v.toNat) else none
  | _ => none

def sMuls : List AArg → Option Instr
  | [.reg d, .reg r] => if 16 ≤ d ∧ d < 32 ∧ 16 ≤ r ∧ r < 32 then some (.muls d r) else none
  | _ => none

def sMulf (o : MulfOp) : List AArg → Option Instr
  | [.reg d, .reg r] => if 16 ≤ d ∧ d < 24 ∧ 16 ≤ r ∧ r < 24 then some (.mulf o d r) else none
  | _ => none

def sMovw : List AArg → Option Instr
  | [.reg d, .reg r] => if d % 2 = 0 ∧ r % 2 = 0 ∧ d < 32 ∧ r < 32 then some (.movw d r) else none
  | _ => none

/-- displacement to the target address written, from the word after the instruction -/
def relOf (addr : Nat) (target : Int) : Int := target - ((addr : Int) + 1)

def sRel (call : Bool) (addr : Nat) : List AArg → Option Instr
  | [.val t] => if inRange (-2048) 2047 (relOf addr t) then some (.rel call (relOf addr t)) else none
  | _ => none

def sAbs (call : Bool) : List AArg → Option Instr
  | [.val t] => if inRange 0 4194303 t then some (.abs call t.toNat) else none
  | _ => none

def sBrb (clear : Bool) (addr : Nat) : List AArg → Option Instr
  | [.val s, .val t] =>
    if inRange 0 7 s ∧ inRange (-64) 63 (relOf addr t) then some (.brb clear s.toNat (relOf addr t)) else none
  | _ => none

def sBr (b : BranchT) (addr : Nat) : List AArg → Option Instr
  | [.val t] =>
    match branchFlag b with
    | some (clear, s) => if inRange (-64) 63 (relOf addr t) then some (.brb clear s (relOf addr t)) else none
    | none => none
  | _ => none

def sLds (avr8l : Bool) : List AArg → Option Instr
  | [.reg d, .val k] =>
    if avr8l then (if 16 ≤ d ∧ d < 32 ∧ inRange 0x40 0xbf k then some (.lds16 d k.toNat) else none)
    else (if d < 32 ∧ inRange 0 65535 k then some (.lds d k.toNat) else none)
  | _ => none

def sSts (avr8l : Bool) : List AArg → Option Instr
  | [.val k, .reg r] =>
    if avr8l then (if 16 ≤ r ∧ r < 32 ∧ inRange 0x40 0xbf k then some (.sts16 k.toNat r) else none)
    else (if r < 32 ∧ inRange 0 65535 k then some (.sts k.toNat r) else none)
  | _ => none

/-- ld/ldd are one family (same manual entry) -/
def sLd : List AArg → Option Instr
  | [.reg d, .idx i] =>
    if d < 32 then
      match dispMode i with
      | some (z, q) => some (.ldd d z q)
      | none => (ptrMode i).map (.ldp d ·)
    else none
  | _ => none

def sSt : List AArg → Option Instr
  | [.idx i, .reg r] =>
    if r < 32 then
      match dispMode i with
      | some (z, q) => some (.std z q r)
      | none => (ptrMode i).map (.stp · r)
    else none
  | _ => none

def sLpm (ext : Bool) : List AArg → Option Instr
  | [] => some (if ext then .elpm0 else .lpm0)
  | [.reg d, .idx (.plain .z)] => if d < 32 then some (.lpm ext d false) else none
  | [.reg d, .idx (.postInc .z)] => if d < 32 then some (.lpm ext d true) else none
  | _ => none

def sIn : List AArg → Option Instr
  | [.reg d, .val a] => if d < 32 ∧ inRange 0 63 a then some (.inp d a.toNat) else none
  | _ => none

def sOut : List AArg → Option Instr
  | [.val a, .reg r] => if r < 32 ∧ inRange 0 63 a then some (.out a.toNat r) else none
  | _ => none

def sRegBit (mk : Nat → Nat → Instr) : List AArg → Option Instr
  | [.reg r, .val b] => if r < 32 ∧ inRange 0 7 b then some (mk r b.toNat) else none
  | _ => none

def sIoBit (o : IoBitOp) : List AArg → Option Instr
  | [.val a, .val b] => if inRange 0 31 a ∧ inRange 0 7 b then some (.iob o a.toNat b.toNat) else none
  | _ => none

def sFlagV (clear : Bool) : List AArg → Option Instr
  | [.val s] => if inRange 0 7 s then some (.flag clear s.toNat) else none
  | _ => none

def sNone (i : Instr) : List AArg → Option Instr
  | [] => some i
  | _ => none

/-- the instruction a mnemonic with these operands denotes at word address `addr`;
    `avr8l` = reduced core (one-word lds/sts) -/
def surface (avr8l : Bool) (op : Op) (args : List AArg) (addr : Nat) : Option Instr :=
  match op with
  | .add => sRR .add args | .adc => sRR .adc args | .sub => sRR .sub args | .sbc => sRR .sbc args
  | .and => sRR .and args | .or => sRR .or args | .eor => sRR .eor args | .cpse => sRR .cpse args
  | .cp => sRR .cp args | .cpc => sRR .cpc args | .mov => sRR .mov args | .mul => sRR .mul args
  | .tst => sRRsame .and args | .clr => sRRsame .eor args
  | .lsl => sRRsame .add args | .rol => sRRsame .adc args
  | .com => sOne .com args | .neg => sOne .neg args | .inc => sOne .inc args | .dec => sOne .dec args
  | .push => sOne .push args | .pop => sOne .pop args | .lsr => sOne .lsr args
  | .ror => sOne .ror args | .asr => sOne .asr args | .swap => sOne .swap args
  -- sbr = ori, cbr Rd,K = andi Rd,~K, ser = ldi Rd,0xff
  | .subi => sImm .subi id args | .sbci => sImm .sbci id args | .andi => sImm .andi id args
  | .ori => sImm .ori id args | .sbr => sImm .ori id args | .cbr => sImm .andi (255 - ·) args
  | .cpi => sImm .cpi id args | .ldi => sImm .ldi id args
  | .ser => sSer args
  | .adiw => sAdiw false args | .sbiw => sAdiw true args
  | .muls => sMuls args
  | .mulsu => sMulf .mulsu args | .fmul => sMulf .fmul args
  | .fmuls => sMulf .fmuls args | .fmulsu => sMulf .fmulsu args
  | .movw => sMovw args
  | .rjmp => sRel false addr args | .rcall => sRel true addr args
  | .jmp => sAbs false args | .call => sAbs true args
  | .br .bs => sBrb false addr args | .br .bc => sBrb true addr args
  | .br b => sBr b addr args
  | .lds => sLds avr8l args | .sts => sSts avr8l args
  | .ld => sLd args | .ldd => sLd args | .st => sSt args | .std => sSt args
  | .lpm => sLpm false args | .elpm => sLpm true args
  | .in => sIn args | .out => sOut args
  | .sbrc => sRegBit (.sbr false) args | .sbrs => sRegBit (.sbr true) args
  | .bst => sRegBit (.bt false) args | .bld => sRegBit (.bt true) args
  | .sbi => sIoBit .sbi args | .cbi => sIoBit .cbi args
  | .sbis => sIoBit .sbis args | .sbic => sIoBit .sbic args
  | .bset => sFlagV false args | .bclr => sFlagV true args
  | .se f => sNone (.flag false (flagNum f)) args
  | .cl f => sNone (.flag true (flagNum f)) args
  | .ijmp => sNone (.noarg .ijmp) args | .eijmp => sNone (.noarg .eijmp) args
  | .icall => sNone (.noarg .icall) args | .eicall => sNone (.noarg .eicall) args
  | .ret => sNone (.noarg .ret) args | .reti => sNone (.noarg .reti) args
  | .spm => sNone (.noarg .spm) args | .break => sNone (.noarg .break) args
  | .nop => sNone (.noarg .nop) args | .sleep => sNone (.noarg .sleep) args
  | .wdr => sNone (.noarg .wdr) args
  | .custom _ => none

end Avra.Isa
