/-
  Mirror of /repo/src/parser.rs (`parse`, `parse_iter`, `skip`, `parse_file_internal`) and of
  `Directive::parse` (/repo/src/directive.rs).  The file system is a parameter (`Fs`).
-/
import Avra.Model.Peg
import Avra.Model.Eval
import Avra.Gen.Devices
namespace Avra.Model
open Avra

/-- abstract file system: absolute, normalised paths of regular files (with content) and of
    directories, and the process working directory -/
structure Fs where
  cwd : Str := ['/']
  files : List (Str × Str) := []
  dirs : List Str := []
  deriving Repr

def splitOn (sep : Char) (s : Str) : List Str :=
  let rec go (cur : Str) : Str → List Str
    | [] => [cur.reverse]
    | c :: cs => if c = sep then cur.reverse :: go [] cs else go (c :: cur) cs
  go [] s

def joinWith (sep : Char) : List Str → Str
  | [] => []
  | [a] => a
  | a :: rest => a ++ sep :: joinWith sep rest

def isAbs (p : Str) : Bool := p.head? = some '/'

/-- `PathBuf::push` -/
def pathPush (a b : Str) : Str :=
  if isAbs b then b
  else if a.isEmpty then b
  else if a.getLast? = some '/' then a ++ b
  else a ++ '/' :: b

/-- components of a path as Rust's `Path::components` yields them for the paths the model
    meets: empty and "." components (other than a leading ".") are dropped -/
def components (p : Str) : List Str :=
  let cs := splitOn '/' p
  let lead : List Str := if isAbs p then [['/']] else
    match cs with
    | ['.'] :: _ => [['.']]
    | _ => []
  let body := (cs.drop (if lead.isEmpty then 0 else 1)).filter fun c => !c.isEmpty && c != ['.']
  lead ++ body

/-- `Path::parent` : none for "" and "/" -/
def pathParent (p : Str) : Option Str :=
  let cs := components p
  match cs.reverse with
  | [] => none
  | [['/']] => none
  | _ :: restRev =>
    let rest := restRev.reverse
    match rest with
    | [] => some []
    | ['/'] :: more => some ('/' :: joinWith '/' more)
    | _ => some (joinWith '/' rest)

/-- lexical normalisation against the working directory (what the OS does when there are no
    symbolic links) -/
def normPath (fs : Fs) (p : Str) : Str :=
  let full := if isAbs p then p else pathPush fs.cwd p
  let rec go (acc : List Str) : List Str → List Str
    | [] => acc.reverse
    | c :: cs =>
      if c = ['.'] ∨ c.isEmpty ∨ c = ['/'] then go acc cs
      else if c = ['.', '.'] then go (acc.drop 1) cs
      else go (c :: acc) cs
  '/' :: joinWith '/' (go [] (splitOn '/' full))

/-- what the OS resolves a path to when there are no symbolic links: as `normPath`, but a ".."
    is only followed out of a directory that exists (`missing/../f` names nothing) -/
def Fs.real (fs : Fs) (p : Str) : Option Str :=
  let full := if isAbs p then p else pathPush fs.cwd p
  let rec go (acc : List Str) : List Str → Option (List Str)
    | [] => some acc.reverse
    | c :: cs =>
      if c = ['.'] ∨ c.isEmpty ∨ c = ['/'] then go acc cs
      else if c = ['.', '.'] then
        if acc.isEmpty ∨ fs.dirs.contains ('/' :: joinWith '/' acc.reverse) then go (acc.drop 1) cs else none
      else go (c :: acc) cs
  (go [] (splitOn '/' full)).map fun cs => '/' :: joinWith '/' cs

def Fs.isFile (fs : Fs) (p : Str) : Bool :=
  match fs.real p with
  | some q => (alookup q fs.files).isSome
  | none => false
/-- a directory: a listed one, or the root (which always exists) -/
def Fs.isDir (fs : Fs) (p : Str) : Bool :=
  match fs.real p with
  | some q => fs.dirs.contains q || q == ['/']
  | none => false
def Fs.exists (fs : Fs) (p : Str) : Bool :=
  fs.isFile p || fs.isDir p
def Fs.read (fs : Fs) (p : Str) : Option Str :=
  match fs.real p with
  | some q => alookup q fs.files
  | none => none

/-- order of `BTreeSet<PathBuf>`: component-wise; the root component sorts below names -/
def compLt (a b : Str) : Bool :=
  if a = ['/'] then b ≠ ['/'] else if b = ['/'] then false else decide (a < b)

def pathLt (a b : Str) : Bool :=
  let rec go : List Str → List Str → Bool
    | [], [] => false
    | [], _ :: _ => true
    | _ :: _, [] => false
    | x :: xs, y :: ys => if compLt x y then true else if compLt y x then false else go xs ys
  go (components a) (components b)

def pathEq (a b : Str) : Bool := components a = components b

/-- insert into the sorted set of include paths -/
def pathsInsert (p : Str) : List Str → List Str
  | [] => [p]
  | q :: qs => if pathEq p q then q :: qs else if pathLt p q then p :: q :: qs else q :: pathsInsert p qs

/-- `str::lines` : split after every "\n"; a piece that ended in "\n" also loses a "\r" just
    before it; a last piece without "\n" is kept as it is; no empty last piece -/
def lines (s : Str) : List Str :=
  let stripCr (l : Str) : Str := if l.getLast? = some '\r' then l.dropLast else l
  let rec go : List Str → List Str
    | [] => []
    | [last] => if last.isEmpty then [] else [last]
    | l :: rest => stripCr l :: go rest
  go (splitOn '\n' s)

inductive NextItem | newLine | endIf | endIfAll | endMacro | endFile
  deriving DecidableEq, Repr

/-- the shared part of `ParseContext` -/
structure PState where
  ctx : Ctx
  segments : List Segment
  macros : List (Str × List (Nat × Str)) := []
  macroName : Str := []
  messages : List Str := []
  /-- set when a parser of the model ran out of fuel (never happens with `exprFuel`) -/
  oof : Bool := false
  deriving Repr

def PState.init (ctx : Ctx) : PState :=
  { ctx := ctx, segments := [{ items := [], t := .code, address := 0 }] }

def PState.lastSeg (st : PState) : Segment :=
  st.segments.getLast?.getD { items := [], t := .code, address := 0 }

def PState.modifyLast (st : PState) (f : Segment → Segment) : PState :=
  match st.segments.reverse with
  | [] => st
  | s :: rest => { st with segments := (f s :: rest).reverse }

def PState.pushToLast (st : PState) (ln : Nat) (it : Item) : PState :=
  st.modifyLast fun s => { s with items := s.items ++ [(ln, it)] }

def PState.addSegment (st : PState) (s : Segment) : PState :=
  { st with segments := st.segments ++ [s] }

/-- `document::line` as the parser sees it: a Document or "does not parse" -/
def parseLine (s : Str) : Option Document × Bool :=
  match Peg.line s with
  | .ok d => (some d, false)
  | .fail => (none, false)
  | .oof => (none, true)

def isCondOpen (d : Directive) : Bool := d = .if ∨ d = .ifdef ∨ d = .ifndef
def isCondStop (d : Directive) : Bool := d = .endif ∨ d = .else ∨ d = .elif

/-- the `.endif` search of `skip` (EndIf / EndIfAll): returns the line to continue with, whether
    it is a re-delivered `.elif`, the remaining lines and whether a parse ran out of fuel -/
def skipCond (all : Bool) : Nat → List (Nat × Str) → (Option (Nat × Str) × Bool × List (Nat × Str) × Bool)
  | _, [] => (none, false, [], false)
  | depth, (num, l) :: rest =>
    match parseLine l with
    | (some (.directiveLine _ d _), _) =>
      if isCondOpen d then skipCond all (depth + 1) rest
      else if isCondStop d then
        if depth = 0 then
          if all ∧ d ≠ .endif then skipCond all depth rest
          else if d = .elif then (some (num, l), true, rest, false)
          else
            match rest with
            | [] => (none, false, [], false)
            | nx :: rest' => (some nx, false, rest', false)
        else if d = .endif then skipCond all (depth - 1) rest
        else skipCond all depth rest
      else skipCond all depth rest
    | (_, true) => (none, false, [], true)
    | _ => skipCond all depth rest

/-- the macro body collection of `skip` (EndMacro): body lines (with 0-based line numbers), the
    line after `.endm`/`.endmacro`, the remaining lines -/
def skipMacro : List (Nat × Str) → List (Nat × Str) → (List (Nat × Str) × Option (Nat × Str) × List (Nat × Str) × Bool)
  | acc, [] => (acc.reverse, none, [], false)
  | acc, (num, l) :: rest =>
    match parseLine l with
    | (some (.directiveLine _ d _), _) =>
      if d = .endmacro ∨ d = .endm then
        match rest with
        | [] => (acc.reverse, none, [], false)
        | nx :: rest' => (acc.reverse, some nx, rest', false)
      else skipMacro ((num, l) :: acc) rest
    | (_, true) => (acc.reverse, none, [], true)
    | _ => skipMacro ((num, l) :: acc) rest

/-- default device of `Device::new(0)` -/
def defaultDevice : Device := Gen.defaultDevice

def lineErr {α : Type} (ln : Nat) (kind : String) : Out α := .error ⟨some ln, kind⟩
def noLineErr {α : Type} (kind : String) : Out α := .error ⟨none, kind⟩

def evalOut (c : Ctx) (e : Expr) (ln : Option Nat) : Out Int :=
  match eval c e with
  | .ok v => .ok v
  | .err _ => .error ⟨ln, "expr"⟩
  | .oof => .oof

def messageText (kind : Str) (msg : Str) (ln : Nat) : Str :=
  kind ++ ": ".toList ++ msg ++ " in line: ".toList ++ natToDec ln

/-- the `.include` handler handed to `Directive::parse`: path as written, include set of the
    including file, state → state after the file and the includer's include set after it (the
    directories added by `.includepath` inside the file stay in force) -/
abbrev IncludeFn := Str → List Str → PState → Out (PState × List Str)

/-- `Directive::parse` : new state, new include set of this file, what to skip next -/
def directiveParse (inc : IncludeFn) (cur : Str) (incs : List Str)
    (st : PState) (d : Directive) (ops : DirectiveOps) (ln : Nat) : Out (PState × List Str × NextItem) :=
    let ok (st : PState) : Out (PState × List Str × NextItem) := .ok (st, incs, .newLine)
    let first : Option Operand := match ops with
      | .opList l => l.head?
      | .assign _ _ => none
    match d with
    | .db | .dw | .dd | .dq =>
      match ops with
      | .opList args =>
        let t := match d with | .db => DataDefine.db | .dw => .dw | .dd => .dd | _ => .dq
        ok (st.pushToLast ln (.data t args))
      | _ => lineErr ln "data-args"
    | .set | .def =>
      match ops with
      | .assign (.ident name) e =>
        ok (st.pushToLast ln (if d = .set then .set name e else .def name e))
      | _ => lineErr ln "assign-args"
    | .undef =>
      match ops, first with
      | .opList _, some (.e (.ident name)) => ok (st.pushToLast ln (.undef name))
      | _, _ => lineErr ln "undef-args"
    | .pragma =>
      match ops with
      | .opList args => ok (st.pushToLast ln (.pragma args))
      | _ => lineErr ln "pragma-args"
    | .byte =>
      match ops with
      | .opList args =>
        if args.length ≠ 1 then lineErr ln "byte-arity" else
        match first with
        | some (.e e) =>
          match eval st.ctx e with
          | .ok n =>
            if n < 0 ∨ n > 4294967295 then lineErr ln "byte-range"
            else ok (st.pushToLast ln (.reserveData n))
          | .err _ => ok st     -- a size not known here is ignored (tests/builder_simple.asm)
          | .oof => .oof
        | _ => lineErr ln "byte-args"
      | _ => lineErr ln "byte-args"
    | .equ =>
      match ops with
      | .assign (.ident name) v =>
        if st.ctx.exist name then lineErr ln "equ-twice" else
        ok { st with ctx := { st.ctx with equs := ainsert (lower name) v st.ctx.equs } }
      | .assign _ _ => ok st
      | _ => lineErr ln "equ-args"
    | .org =>
      match ops, first with
      | .opList _, some (.e e) =>
        match eval st.ctx e with
        | .ok v =>
          if v < 0 ∨ v > 4294967295 then lineErr ln "org-range" else
          let st := if !st.lastSeg.items.isEmpty
            then st.addSegment { items := [], t := st.lastSeg.t, address := 0 } else st
          ok (st.modifyLast fun s => { s with address := v.toNat })
        | .err _ => lineErr ln "org-expr"
        | .oof => .oof
      | .opList _, _ => lineErr ln "org-args"
      | _, _ => lineErr ln "org-args"
    | .cseg | .dseg | .eseg =>
      let t := match d with | .cseg => SegT.code | .dseg => .data | _ => .eeprom
      if !st.lastSeg.items.isEmpty then ok (st.addSegment { items := [], t := t, address := 0 })
      else ok (st.modifyLast fun s => { s with t := t, address := if s.t ≠ t then 0 else s.address })
    | .device =>
      match ops, first with
      | .opList _, some (.e (.ident name)) =>
        match alookup name Gen.devices with
        | some dev =>
          if st.ctx.device = defaultDevice then ok { st with ctx := { st.ctx with device := dev } }
          else lineErr ln "device-redefinition"
        | none => lineErr ln "unknown-device"
      | _, _ => lineErr ln "device-args"
    | .include =>
      match ops, first with
      | .opList _, some (.s path) =>
        match inc path incs st with
        | .ok (st', incs') => .ok (st', incs', .newLine)
        -- MAX_INCLUDE_DEPTH is checked by the `.include` arm itself, so the error names this line
        | .error e => if e.kind = "include-depth" ∧ e.line = none then lineErr ln "include-depth" else .error e
        | .panic s => .panic s
        | .oof => .oof
      | _, _ => lineErr ln "include-args"
    | .includepath =>
      match ops, first with
      | .opList _, some (.s path) =>
        if isAbs path then .ok (st, pathsInsert path incs, .newLine)
        else
          match pathParent cur with
          | some par => .ok (st, pathsInsert (pathPush par path) incs, .newLine)
          | none => .ok (st, pathsInsert (pathPush [] path) incs, .newLine)
      | _, _ => lineErr ln "includepath-args"
    | .if | .elif =>
      match ops, first with
      | .opList _, some (.e e) =>
        match eval st.ctx e with
        | .ok v => .ok (st, incs, if v = 0 then .endIf else .newLine)
        | .err _ => lineErr ln "if-expr"
        | .oof => .oof
      | _, _ => lineErr ln "if-args"
    | .ifndef | .ifdef =>
      match ops, first with
      | .opList _, some (.e (.ident name)) =>
        let isDef := (alookup name st.ctx.defines).isSome
        let skipIt := if isDef then d = .ifndef else d = .ifdef
        .ok (st, incs, if skipIt then .endIf else .newLine)
      | _, _ => lineErr ln "ifdef-args"
    | .define =>
      match ops, first with
      | .opList _, some (.e (.ident name)) =>
        ok { st with ctx := { st.ctx with defines := ainsert name (.const 0) st.ctx.defines } }
      | _, _ => lineErr ln "define-args"
    | .else => .ok (st, incs, .endIf)
    | .endif => ok st
    | .exit => .ok (st, incs, .endFile)
    | .macro =>
      match ops, first with
      | .opList _, some (.e (.ident name)) =>
        .ok ({ st with macroName := lower name }, incs, .endMacro)
      | _, _ => lineErr ln "macro-args"
    | .csegsize => ok st
    | .message | .warning | .error =>
      match ops, first with
      | .opList _, some (.s msg) =>
        let kind := match d with
          | .message => "info".toList | .warning => "warning".toList | _ => "error".toList
        let st := { st with messages := st.messages ++ [messageText kind msg ln] }
        if d = .error then lineErr ln "error-directive" else ok st
      | _, _ => lineErr ln "message-args"
    | .custom _ => lineErr ln "custom-directive"
    | _ => lineErr ln "unsupported-directive"

/-- the `skip` call at the head of the `parse_iter` loop: state (macro bodies are stored here),
    line to continue with, whether it is a re-delivered `.elif`, remaining lines, out-of-fuel -/
def skipStep (st : PState) (ni : NextItem) (ls : List (Nat × Str)) :
    PState × Option (Nat × Str) × Bool × List (Nat × Str) × Bool :=
  match ni with
  | .newLine =>
    match ls with
    | [] => (st, none, false, [], false)
    | l :: rest => (st, some l, false, rest, false)
  | .endFile => (st, none, false, [], false)
  | .endMacro =>
    let (body, nx, rest, o) := skipMacro [] ls
    ({ st with macros := ainsert st.macroName body st.macros }, nx, false, rest, o)
  | .endIf => let (nx, re, rest, o) := skipCond false 0 ls; (st, nx, re, rest, o)
  | .endIfAll => let (nx, re, rest, o) := skipCond true 0 ls; (st, nx, re, rest, o)

/-- the body of the `parse_iter` loop for one delivered line (0-based index, text) -/
def lineStep (inc : IncludeFn) (cur : Str) (incs : List Str) (st : PState) (idx : Nat) (text : Str)
    (redelivered : Bool) : Out (PState × List Str × NextItem) :=
  let ln := idx + 1
  match parseLine text with
  | (_, true) => .oof
  | (none, _) => lineErr ln "syntax"
  | (some doc, _) =>
    match doc with
    | .label name => .ok (st.pushToLast ln (.label name), incs, .newLine)
    | .codeLine lab op args =>
      let st := match lab with
        | some n => st.pushToLast ln (.label n)
        | none => st
      .ok (st.pushToLast ln (.instruction op args), incs, .newLine)
    | .directiveLine lab d ops =>
      let st := match lab with
        | some n => st.pushToLast ln (.label n)
        | none => st
      if d = .else ∨ (d = .elif ∧ !redelivered) then .ok (st, incs, .endIfAll)
      else directiveParse inc cur incs st d ops ln
    | .emptyLine => .ok (st, incs, .newLine)

/-- `parse_iter` : `ls` are the remaining (0-based line index, text) pairs of the iterator.  The
    first argument bounds the number of loop iterations; `ls.length + 1` always suffices, since
    every iteration consumes at least one line. -/
def parseIterWith (inc : IncludeFn) (cur : Str) :
    Nat → List Str → PState → NextItem → List (Nat × Str) → Out (PState × List Str)
  | 0, _, _, _, _ => .oof
  | lf + 1, incs, st, ni, ls =>
    match skipStep st ni ls with
    | (_, _, _, _, true) => .oof
    | (st, none, _, _, false) => .ok (st, incs)
    | (st, some (idx, text), redelivered, rest, false) =>
      match lineStep inc cur incs st idx text redelivered with
      | .ok (st', incs', ni') => parseIterWith inc cur lf incs' st' ni' rest
      | .error e => .error e
      | .panic s => .panic s
      | .oof => .oof

def numbered (ls : List Str) : List (Nat × Str) := List.zip (List.range ls.length) ls

/-- the path `parse_file_internal` opens: as written when that exists, else the first
    `dir/path` that exists over the include set in its order, else as written -/
def resolvePath (fs : Fs) (path : Str) (incs : List Str) : Str :=
  if fs.exists path then path
  else
    match incs.find? (fun par => fs.exists (pathPush par path)) with
    | some par => pathPush par path
    | none => path

/-- what `parse_file_internal` hands back to the including file: every directory of the file's
    final include set except the file's own directory -/
def writeBack (own : Option Str) (incsFile incs : List Str) : List Str :=
  incsFile.foldl (fun acc p => if own.any (pathEq p) then acc else pathsInsert p acc) incs

/-- `parse_file_internal` for the path `path` as written, with the includer's include set; the
    first argument bounds the include nesting (the Rust recursion has no bound of its own) -/
def parseFileAt (fs : Fs) : Nat → IncludeFn
  | 0, _, _, _ => .error ⟨none, "include-depth"⟩
  | d + 1, path, incs, st =>
    let resolved : Str := resolvePath fs path incs
    match fs.read resolved with
    | none =>
      -- a directory can be opened but not read: the error is the OS's, without the file name
      if fs.isDir resolved then .error ⟨none, "read-directory"⟩
      else .error ⟨none, "cannot-read-file:" ++ String.ofList resolved⟩
    | some src =>
      let par := pathParent resolved
      -- the file's own directory, when it is not in the set yet
      let own : Option Str := match par with
        | some p => if incs.any (pathEq p) then none else some p
        | none => none
      let incs' := match par with
        | some p => pathsInsert p incs
        | none => incs
      let ls := lines src
      match parseIterWith (parseFileAt fs d) resolved (ls.length + 1) incs' st .newLine (numbered ls) with
      | .ok (st', incsFile) => .ok (st', writeBack own incsFile incs)
      | .error e => .error e
      | .panic s => .panic s
      | .oof => .oof

/-- MAX_INCLUDE_DEPTH of parser.rs -/
def includeDepth : Nat := 64

/-- `parse_iter` as the code calls it -/
def parseIter (fs : Fs) (cur : Str) (incs : List Str) (st : PState) (ni : NextItem)
    (ls : List (Nat × Str)) : Out (PState × List Str) :=
  parseIterWith (parseFileAt fs includeDepth) cur (ls.length + 1) incs st ni ls

/-- `ParseResult` -/
structure ParseResult where
  segments : List Segment
  macros : List (Str × List (Nat × Str))
  messages : List Str
  deriving Repr

def PState.asParseResult (st : PState) : ParseResult :=
  { segments := st.segments.filter fun s => !s.items.isEmpty
    macros := st.macros
    messages := st.messages }

/-- `parse_str` : the current path is the working directory, the include set is empty -/
def parseStr (fs : Fs) (src : Str) (ctx : Ctx) : Out (PState) :=
  match parseIter fs fs.cwd [] (PState.init ctx) .newLine (numbered (lines src)) with
  | .ok (st, _) => .ok st
  | .error e => .error e
  | .panic s => .panic s
  | .oof => .oof

/-- `parse_file` -/
def parseFile (fs : Fs) (path : Str) (incs : List Str) (ctx : Ctx) : Out PState :=
  match parseFileAt fs (includeDepth + 1) path (incs.foldl (fun acc p => pathsInsert p acc) []) (PState.init ctx) with
  | .ok (st, _) => .ok st
  | .error e => .error e
  | .panic s => .panic s
  | .oof => .oof

end Avra.Model
