/-
  Mirror of /repo/src/context.rs (symbol tables, lookup order) and of `Expr::run` and the
  `get_byte/get_words/...` conversions of /repo/src/expr.rs.
-/
import Avra.Ast
namespace Avra.Model
open Avra

/-- error of the model: the `line: N` tag the Rust error text carries (if any) and a kind that
    is only used for debugging (never compared with the implementation) -/
structure Err where
  line : Option Nat
  kind : String
  deriving Repr, DecidableEq

/-- outcome of a model computation.  `panic` appears exactly where the Rust code can panic,
    `oof` where the Rust recursion has no bound of its own. -/
inductive Out (α : Type)
  | ok (v : α)
  | error (e : Err)
  | panic (site : String)
  | oof
  deriving Repr

instance : Monad Out where
  pure := .ok
  bind x f := match x with
    | .ok v => f v
    | .error e => .error e
    | .panic s => .panic s
    | .oof => .oof

def Out.err {α : Type} (line : Option Nat) (kind : String) : Out α := .error ⟨line, kind⟩

/-- `CommonContext` -/
structure Ctx where
  defines : List (Str × Expr) := []
  equs : List (Str × Expr) := []
  labels : List (Str × (SegT × Nat)) := []
  defs : List (Str × Nat) := []
  sets : List (Str × Expr) := []
  special : List (Str × Expr) := []
  device : Device
  deriving Repr

/-- `Context::get_expr` : define > equ > set > special > label; which maps lower-case the key
    is exactly as in context.rs (`get_define` does not) -/
def Ctx.getExpr (c : Ctx) (name : Str) : Option Expr :=
  match alookup name c.defines with
  | some e => some e
  | none =>
    match alookup (lower name) c.equs with
    | some e => some e
    | none =>
      match alookup (lower name) c.sets with
      | some e => some e
      | none =>
        match alookup (lower name) c.special with
        | some e => some e
        | none => (alookup (lower name) c.labels).map fun x => Expr.const (x.2 : Int)

def Ctx.getDef (c : Ctx) (name : Str) : Option Nat := alookup (lower name) c.defs

/-- `Context::exist` -/
def Ctx.exist (c : Ctx) (name : Str) : Bool :=
  (c.getExpr name).isSome || (c.getDef name).isSome

/-- evaluation errors (`ExprRunError`) -/
inductive EvalErr
  | missingIdent | missingFunc | arith | notIdentFunc | tooDeep
  deriving Repr, DecidableEq

inductive EvalRes
  | ok (v : Int)
  | err (e : EvalErr)
  | oof
  deriving Repr, DecidableEq

/-- two's complement bit operations on i64 values, through `BitVec 64` -/
def bv (v : Int) : BitVec 64 := BitVec.ofInt 64 v
def i64And (a b : Int) : Int := (bv a &&& bv b).toInt
def i64Or (a b : Int) : Int := (bv a ||| bv b).toInt
def i64Xor (a b : Int) : Int := (bv a ^^^ bv b).toInt
def i64Not (a : Int) : Int := (~~~ bv a).toInt
/-- Rust `a << n` on i64 for 0 ≤ n ≤ 63 (bits shifted out are lost) -/
def i64Shl (a : Int) (n : Nat) : Int := (bv a <<< n).toInt
/-- Rust `a >> n` on i64: arithmetic shift -/
def i64Shr (a : Int) (n : Nat) : Int := (BitVec.sshiftRight (bv a) n).toInt

def b2i (b : Bool) : Int := if b then 1 else 0

/-- `checked_*` : the exact result, or overflow -/
def checked (v : Int) : EvalRes := if inI64 v then .ok v else .err .arith

/-- Rust integer division truncates toward zero; remainder takes the sign of the dividend -/
def binEval (op : BinOp) (l r : Int) : EvalRes :=
  match op with
  | .add => checked (l + r)
  | .sub => checked (l - r)
  | .mul => checked (l * r)
  | .div => if r = 0 then .err .arith else checked (Int.tdiv l r)
  | .rem => if r = 0 then .err .arith
            else if l = i64Min ∧ r = -1 then .err .arith else .ok (Int.tmod l r)
  | .band => .ok (i64And l r)
  | .bor => .ok (i64Or l r)
  | .bxor => .ok (i64Xor l r)
  | .shl => if r < 0 ∨ r > 63 then .err .arith else .ok (i64Shl l r.toNat)
  | .shr => if r < 0 ∨ r > 63 then .err .arith else .ok (i64Shr l r.toNat)
  | .lt => .ok (b2i (l < r))
  | .le => .ok (b2i (l ≤ r))
  | .gt => .ok (b2i (l > r))
  | .ge => .ok (b2i (l ≥ r))
  | .eq => .ok (b2i (l = r))
  | .ne => .ok (b2i (l ≠ r))
  | .land => .ok (b2i (l ≠ 0 ∧ r ≠ 0))
  | .lor => .ok (b2i (l ≠ 0 ∨ r ≠ 0))

def unEval (op : UnOp) (v : Int) : EvalRes :=
  match op with
  | .minus => checked (-v)
  | .bnot => .ok (i64Not v)
  | .lnot => .ok (b2i (v = 0))

/-- `log2` of expr.rs: number of bits of `value as u64` -/
def log2Loop : Nat → Nat → Nat
  | 0, _ => 0
  | f + 1, v => if v > 0 then log2Loop f (v / 2) + 1 else 0

/-- the functions of `Expr::Func`, on the lower-cased name -/
def funcEval (name : Str) (v : Int) : EvalRes :=
  let u := asU 64 v
  if name = "low".toList then .ok ((u % 256 : Nat) : Int)
  else if name = "high".toList ∨ name = "byte2".toList then .ok ((u / 256 % 256 : Nat) : Int)
  else if name = "byte3".toList then .ok ((u / 65536 % 256 : Nat) : Int)
  else if name = "byte4".toList then .ok ((u / 16777216 % 256 : Nat) : Int)
  else if name = "lwrd".toList then .ok ((u % 65536 : Nat) : Int)
  else if name = "hwrd".toList then .ok ((u / 65536 % 65536 : Nat) : Int)
  else if name = "page".toList then .ok ((u / 65536 % 32 : Nat) : Int)
  else if name = "exp2".toList then
    if v < 0 ∨ v > 63 then .err .arith else .ok (i64Shl 1 v.toNat)
  else if name = "log2".toList then .ok ((log2Loop 65 u : Nat) : Int)
  else .err .missingFunc

/-- MAX_SYMBOL_DEPTH of expr.rs -/
def maxSymbolDepth : Nat := 100

/-- the `match self` of `Expr::run_nested` with the `Ident` arm abstracted: `sym` is what an
    identifier evaluates to.  Structural recursion over the expression, like the Rust code. -/
def evalWith (sym : Str → EvalRes) : Expr → EvalRes
  | .ident name => sym name
  | .const v => .ok v
  | .func (.ident name) arg =>
    match evalWith sym arg with
    | .ok v => funcEval (lower name) v
    | r => r
  | .func _ _ => .err .notIdentFunc
  | .bin op l r =>
    match evalWith sym l with
    | .ok lv =>
      match evalWith sym r with
      | .ok rv => binEval op lv rv
      | x => x
    | x => x
  | .un op e1 =>
    match evalWith sym e1 with
    | .ok v => unEval op v
    | x => x

/-- the `Ident` arm at `MAX_SYMBOL_DEPTH - k` nested symbol expansions: a constant is its value,
    another expression is evaluated one level deeper, unless the depth limit is reached -/
def symAt (c : Ctx) : Nat → Str → EvalRes
  | 0, name =>
    match c.getExpr name with
    | some (.const v) => .ok v
    | some _ => .err .tooDeep
    | none => .err .missingIdent
  | k + 1, name =>
    match c.getExpr name with
    | some (.const v) => .ok v
    | some e' => evalWith (symAt c k) e'
    | none => .err .missingIdent

/-- `Expr::run` : no fuel is needed — the Rust recursion is bounded by the expression size and
    by MAX_SYMBOL_DEPTH, and so is this one -/
def eval (c : Ctx) (e : Expr) : EvalRes := evalWith (symAt c maxSymbolDepth) e

/-- `get_byte` : −128..255 → u8 -/
def getByte (c : Ctx) (e : Expr) : EvalRes :=
  match eval c e with
  | .ok v => if v > 255 ∨ v < -128 then .err .arith else .ok ((asU 8 v : Nat) : Int)
  | r => r

/-- `get_bit_index` : 0..7 -/
def getBitIndex (c : Ctx) (e : Expr) : EvalRes :=
  match eval c e with
  | .ok v => if v < 0 ∨ v > 7 then .err .arith else .ok v
  | r => r

end Avra.Model
