/-
  Mirror of `instruction::process` (/repo/src/instruction/mod.rs), arm by arm.  Base opcodes and
  lengths come from Gen.infoTable (extracted by executing `Operation::info`), branch and flag
  numbers from Gen.brNum / Gen.sfNum.
-/
import Avra.Model.Eval
import Avra.Gen.Tables
namespace Avra.Model
open Avra

def lookupOp {α : Type} (op : Op) : List (Op × α) → Option α
  | [] => none
  | (o, v) :: rest => if o = op then some v else lookupOp op rest

/-- `Operation::info` : (length in words, base opcode) -/
def info (avr8l : Bool) (op : Op) : Option (Nat × Nat) :=
  match op with
  | .custom _ => some (0, 0)
  | _ =>
    let rec go : List (Op × Bool × Nat × Nat) → Option (Nat × Nat)
      | [] => none
      | (o, a, l, c) :: rest => if o = op ∧ a = avr8l then some (l, c) else go rest
    go Gen.infoTable

inductive EncErr
  | eval (e : EvalErr) | notReg | notExpr | notIndex | regClass | range | arity | form | noInfo
  deriving Repr, DecidableEq

inductive EncRes
  | ok (bytes : List Nat)
  | err (e : EncErr)
  | oof
  deriving Repr, DecidableEq

/-- `InstructionOps::get_r8` -/
def getR8 (c : Ctx) : IOp → Except EncErr Nat
  | .r8 n => .ok n
  | .e (.ident name) =>
    match c.getDef name with
    | some n => .ok n
    | none => .error .notReg
  | _ => .error .notReg

def getExprArg : IOp → Except EncErr Expr
  | .e e => .ok e
  | _ => .error .notExpr

def getIndexArg : IOp → Except EncErr IndexOps
  | .index i => .ok i
  | _ => .error .notIndex

/-- allowed operand counts (the arity table at the top of `process`) -/
def allowedArgs : Op → List Nat
  | .add | .adc | .sub | .sbc | .and | .or | .eor | .cpse | .cp | .cpc | .mov | .mul
  | .adiw | .sbiw | .subi | .sbci | .andi | .ori | .sbr | .cbr | .cpi | .ldi | .muls
  | .mulsu | .fmul | .fmuls | .fmulsu | .movw | .lds | .sts | .ld | .st | .ldd | .std
  | .in | .out | .sbrc | .sbrs | .bst | .bld | .sbi | .cbi | .sbis | .sbic
  | .br .bs | .br .bc => [2]
  | .com | .neg | .inc | .dec | .push | .pop | .lsr | .ror | .asr | .swap | .tst | .clr
  | .lsl | .rol | .ser | .rjmp | .rcall | .jmp | .call | .bset | .bclr | .br _ => [1]
  | .lpm | .elpm => [0, 2]
  | _ => [0]

/-- evaluation lifted into the encoder's error type -/
def evalE (c : Ctx) (e : Expr) : Except (Option EncErr) Int :=
  match eval c e with
  | .ok v => .ok v
  | .err x => .error (some (.eval x))
  | .oof => .error none

def byteE (c : Ctx) (e : Expr) : Except (Option EncErr) Nat :=
  match getByte c e with
  | .ok v => .ok v.toNat
  | .err x => .error (some (.eval x))
  | .oof => .error none

def bitE (c : Ctx) (e : Expr) : Except (Option EncErr) Nat :=
  match getBitIndex c e with
  | .ok v => .ok v.toNat
  | .err x => .error (some (.eval x))
  | .oof => .error none

def liftE {α : Type} (x : Except EncErr α) : Except (Option EncErr) α :=
  match x with
  | .ok v => .ok v
  | .error e => .error (some e)

def failE {α : Type} (e : EncErr) : Except (Option EncErr) α := .error (some e)

def arg (args : List IOp) (i : Nat) : IOp := args.getD i (.r8 0)

def regValue : Reg16 → Nat
  | .x => 0b1100 | .y => 0b1000 | .z => 0b0000

/-- the opcode word(s): (first word, optional second word) -/
def encodeWords (c : Ctx) (op : Op) (args : List IOp) (addr : Nat) (base : Nat) :
    Except (Option EncErr) (Nat × Option Nat) := do
  let a0 := arg args 0
  let a1 := arg args 1
  match op with
  | .add | .adc | .sub | .sbc | .and | .or | .eor | .cpse | .cp | .cpc | .mov | .mul =>
    let d ← liftE (getR8 c a0)
    let r ← liftE (getR8 c a1)
    pure (base ||| (d <<< 4) ||| ((r &&& 0x10) <<< 5) ||| (r &&& 0x0f), none)
  | .adiw | .sbiw =>
    let d ← liftE (getR8 c a0)
    if !(d == 24 || d == 26 || d == 28 || d == 30) then failE .regClass else
    let ke ← liftE (getExprArg a1)
    let kb ← byteE c ke
    let k := u8AsI8 kb
    if k < 0 ∨ k > 63 then failE .range else
    let k := k.toNat
    pure (base ||| (((d - 24) / 2) <<< 4) ||| ((k &&& 0x30) <<< 2) ||| (k &&& 0x0f), none)
  | .subi | .sbci | .andi | .ori | .sbr | .cbr | .cpi | .ldi =>
    let d ← liftE (getR8 c a0)
    if d < 16 then failE .regClass else
    let ke ← liftE (getExprArg a1)
    let kb ← byteE c ke
    let k := if op = .cbr then 0xff - kb else kb
    pure (base ||| ((d &&& 0x0f) <<< 4) ||| ((k &&& 0xf0) <<< 4) ||| (k &&& 0x0f), none)
  | .com | .neg | .inc | .dec | .push | .pop | .lsr | .ror | .asr | .swap =>
    let r ← liftE (getR8 c a0)
    pure (base ||| (r <<< 4), none)
  | .tst | .clr | .lsl | .rol =>
    let r ← liftE (getR8 c a0)
    pure (base ||| (r <<< 4) ||| ((r &&& 0x10) <<< 5) ||| (r &&& 0x0f), none)
  | .ser =>
    let r ← liftE (getR8 c a0)
    if r < 16 then failE .regClass else
    pure (base ||| ((r &&& 0x0f) <<< 4), none)
  | .muls =>
    let d ← liftE (getR8 c a0)
    if d < 16 then failE .regClass else
    let r ← liftE (getR8 c a1)
    if r < 16 then failE .regClass else
    pure (base ||| ((d &&& 0x0f) <<< 4) ||| (r &&& 0x0f), none)
  | .mulsu | .fmul | .fmuls | .fmulsu =>
    let d ← liftE (getR8 c a0)
    if d < 16 ∨ d > 23 then failE .regClass else
    let r ← liftE (getR8 c a1)
    if r < 16 ∨ r > 23 then failE .regClass else
    pure (base ||| ((d &&& 0x07) <<< 4) ||| (r &&& 0x07), none)
  | .rjmp | .rcall =>
    let ke ← liftE (getExprArg a0)
    let k ← evalE c ke
    let rel := k - ((addr : Int) + 1)
    if rel < -2048 ∨ rel > 2047 then failE .range else
    pure (base ||| (asU 16 rel &&& 0x0fff), none)
  | .jmp | .call =>
    let ke ← liftE (getExprArg a0)
    let k ← evalE c ke
    if k < 0 ∨ k > 4194303 then failE .range else
    let k := k.toNat
    pure (base ||| ((k &&& 0x3e0000) >>> 13) ||| ((k &&& 0x010000) >>> 16), some (k &&& 0xffff))
  | .br s =>
    let two := (s = .bs ∨ s = .bc)
    let sbits ← (if two then do
        let se ← liftE (getExprArg a0)
        bitE c se
      else pure 0)
    let num ← (match lookupOp (.br s) Gen.brNum with
      | some n => pure n
      | none => failE .noInfo)
    let ke ← liftE (getExprArg (if two then a1 else a0))
    let k ← evalE c ke
    let rel := k - ((addr : Int) + 1)
    if rel < -64 ∨ rel > 63 then failE .range else
    pure (base ||| sbits ||| num ||| ((asU 16 rel &&& 0x7f) <<< 3), none)
  | .movw =>
    let d ← liftE (getR8 c a0)
    if d % 2 ≠ 0 then failE .regClass else
    let r ← liftE (getR8 c a1)
    if r % 2 ≠ 0 then failE .regClass else
    pure (base ||| ((d / 2) <<< 4) ||| (r / 2), none)
  | .lds | .sts =>
    let r ← liftE (getR8 c (if op = .lds then a0 else a1))
    let ke ← liftE (getExprArg (if op = .lds then a1 else a0))
    let k ← evalE c ke
    if c.device.isAvr8l then
      if r < 16 then failE .regClass else
      if k < 0x40 ∨ k > 0xbf then failE .range else
      let k := k.toNat
      pure (base ||| ((r &&& 0x0f) <<< 4) ||| ((k &&& 0x40) <<< 2) ||| ((k &&& 0x30) <<< 5) ||| (k &&& 0x0f), none)
    else
      if k < 0 ∨ k > 65535 then failE .range else
      pure (base ||| (r <<< 4), some (k.toNat &&& 0xffff))
  | .ld | .st | .ldd | .std =>
    let isLoad := (op = .ld ∨ op = .ldd)
    let r ← liftE (getR8 c (if isLoad then a0 else a1))
    let i ← liftE (getIndexArg (if isLoad then a1 else a0))
    let bits ← (match i with
      | .none r16 => pure ((if r16 = .x then 0x1000 else 0) ||| regValue r16)
      | .postInc r16 => pure (0b01 ||| 0x1000 ||| regValue r16)
      | .preDec r16 => pure (0b10 ||| 0x1000 ||| regValue r16)
      | .postIncE r16 e => do
        if r16 = .x then failE .form else
        let kb ← byteE c e
        let k := u8AsI8 kb
        if k < 0 ∨ k > 63 then failE .range else
        let k := k.toNat
        pure (regValue r16 ||| ((k &&& 0x20) <<< 8) ||| ((k &&& 0x18) <<< 7) ||| (k &&& 0x07)))
    pure (base ||| (r <<< 4) ||| bits, none)
  | .lpm | .elpm =>
    if args.length = 0 then
      pure (if op = .lpm then 0x95c8 else 0x95d8, none)
    else
      let r ← liftE (getR8 c a0)
      let i ← liftE (getIndexArg a1)
      let bits ← (match i with
        | .none .z => pure 0b100
        | .postInc .z => pure 0b101
        | _ => failE .form)
      pure (base ||| (r <<< 4) ||| bits ||| (if op = .elpm then 0b10 else 0), none)
  | .in | .out =>
    let r ← liftE (getR8 c (if op = .in then a0 else a1))
    let ke ← liftE (getExprArg (if op = .in then a1 else a0))
    let kb ← byteE c ke
    let k := u8AsI8 kb
    if k < 0 ∨ k > 63 then failE .range else
    let k := k.toNat
    pure (base ||| (r <<< 4) ||| ((k &&& 0x30) <<< 5) ||| (k &&& 0x0f), none)
  | .sbrc | .sbrs | .bst | .bld =>
    let r ← liftE (getR8 c a0)
    let be ← liftE (getExprArg a1)
    let b ← bitE c be
    pure (base ||| (r <<< 4) ||| b, none)
  | .sbi | .cbi | .sbis | .sbic =>
    let ke ← liftE (getExprArg a0)
    let kb ← byteE c ke
    let k := u8AsI8 kb
    if k < 0 ∨ k > 31 then failE .range else
    let be ← liftE (getExprArg a1)
    let b ← bitE c be
    pure (base ||| (k.toNat <<< 3) ||| b, none)
  | .bset | .bclr =>
    let ke ← liftE (getExprArg a0)
    let k ← bitE c ke
    pure (base ||| (k <<< 4), none)
  | .se f | .cl f =>
    match lookupOp op Gen.sfNum with
    | some k => pure (base ||| (k <<< 4), none)
    | none => let _ := f; failE .noInfo
  | _ => pure (base, none)

/-- `instruction::process` : bytes, little-endian, one or two words -/
def process (c : Ctx) (op : Op) (args : List IOp) (addr : Nat) : EncRes :=
  if !(allowedArgs op).contains args.length then .err .arity else
  match info c.device.isAvr8l op with
  | none => .err .noInfo
  | some (_, base) =>
    match encodeWords c op args addr base with
    | .ok (w, none) => .ok (leBytes 2 w)
    | .ok (w, some w2) => .ok (leBytes 2 w ++ leBytes 2 w2)
    | .error (some e) => .err e
    | .error none => .oof

end Avra.Model
