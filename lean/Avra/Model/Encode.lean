/-
  Mirror of `instruction::process` (/repo/src/instruction/mod.rs), arm by arm.  Base opcodes and
  lengths come from Gen.infoTable (extracted by executing `Operation::info`), branch and flag
  numbers from Gen.brNum / Gen.sfNum.

  Structure: `resolve` turns every operand into what the Rust accessors (`get_r8`, `get_expr` +
  `run`/`get_byte`/`get_bit_index`, `get_index`) would yield; `encodeR` is the `match op` of
  `process` on resolved operands, each arm = field extraction (the Rust guards and casts)
  followed by bit packing (the Rust shifts and masks).
-/
import Avra.Model.Eval
import Avra.Gen.Tables
import Avra.Isa.Surface
namespace Avra.Model
open Avra
open Avra.Isa (AArg AIndex)

def lookupOp {α : Type} (op : Op) : List (Op × α) → Option α
  | [] => none
  | (o, v) :: rest => if o = op then some v else lookupOp op rest

def infoGo (op : Op) (avr8l : Bool) : List (Op × Bool × Nat × Nat) → Option (Nat × Nat)
  | [] => none
  | (o, a, l, c) :: rest => if o = op ∧ a = avr8l then some (l, c) else infoGo op avr8l rest

/-- `Operation::info` : (length in words, base opcode) -/
def info (avr8l : Bool) (op : Op) : Option (Nat × Nat) :=
  match op with
  | .custom _ => some (0, 0)
  | _ => infoGo op avr8l Gen.infoTable

inductive EncRes
  | ok (bytes : List Nat)
  | err
  | oof
  deriving Repr, DecidableEq

/-- what the accessors of `InstructionOps` yield for an operand: `.reg` when `get_r8` succeeds
    (a register, or an identifier that is a live `.def` alias), `.val` when it is an expression
    that evaluates, `.idx` for an index operand (displacement evaluated), `.bad` otherwise.
    An identifier that is an alias is never also needed as a value by the same mnemonic
    position, and the other way round (see `encodeR`: each position uses one accessor). -/
def resolveIndex (c : Ctx) : IndexOps → Option AIndex
  | .none r => some (.plain r)
  | .postInc r => some (.postInc r)
  | .preDec r => some (.preDec r)
  | .postIncE r e =>
    match eval c e with
    | .ok v => some (.disp r (some v))
    | .err _ => some (.disp r none)
    | .oof => none

/-- the operand as a register (`get_r8`) -/
def asReg (c : Ctx) : IOp → Option Nat
  | .r8 n => some n
  | .e (.ident name) => c.getDef name
  | _ => none

/-- the operand as a value (`get_expr` then `run`); `none` = out of fuel -/
def asVal (c : Ctx) : IOp → Option AArg
  | .e e =>
    match eval c e with
    | .ok v => some (.val v)
    | .err _ => some .bad
    | .oof => none
  | _ => some .bad

/-- the operand as an index (`get_index`) -/
def asIdx (c : Ctx) : IOp → Option AArg
  | .index i => (resolveIndex c i).map .idx
  | _ => some .bad

/-- which accessor `process` applies to operand `i` of `op` -/
inductive Acc | reg | val | idx
  deriving DecidableEq, Repr

def accessors : Op → List Acc
  | .add | .adc | .sub | .sbc | .and | .or | .eor | .cpse | .cp | .cpc | .mov | .mul
  | .muls | .mulsu | .fmul | .fmuls | .fmulsu | .movw => [.reg, .reg]
  | .adiw | .sbiw | .subi | .sbci | .andi | .ori | .sbr | .cbr | .cpi | .ldi
  | .lds | .in | .sbrc | .sbrs | .bst | .bld => [.reg, .val]
  | .sts | .out => [.val, .reg]
  | .com | .neg | .inc | .dec | .push | .pop | .lsr | .ror | .asr | .swap
  | .tst | .clr | .lsl | .rol | .ser => [.reg]
  | .rjmp | .rcall | .jmp | .call | .bset | .bclr => [.val]
  | .br .bs | .br .bc => [.val, .val]
  | .br _ => [.val]
  | .ld | .ldd | .lpm | .elpm => [.reg, .idx]
  | .st | .std => [.idx, .reg]
  | .sbi | .cbi | .sbis | .sbic => [.val, .val]
  | _ => []

def resolveOne (c : Ctx) (a : Acc) (o : IOp) : Option AArg :=
  match a with
  | .reg => some (match asReg c o with | some n => .reg n | none => .bad)
  | .val => asVal c o
  | .idx => asIdx c o

/-- resolved operands; `none` = an evaluation ran out of fuel -/
def resolve (c : Ctx) : List Acc → List IOp → Option (List AArg)
  | a :: as, o :: os =>
    match resolveOne c a o, resolve c as os with
    | some x, some xs => some (x :: xs)
    | _, _ => none
  | _, [] => some []
  | [], _ :: os => (resolve c [] os).map (AArg.bad :: ·)

/-! ### field extraction: the Rust guards and casts -/

/-- `get_byte` (−128..255, `as u8`) -/
def fByte (v : Int) : Option Nat := if v > 255 ∨ v < -128 then none else some (asU 8 v)

/-- `get_byte(..)? as i8` then `k < 0 || k > hi` -/
def fSmall (hi : Int) (v : Int) : Option Nat :=
  match fByte v with
  | none => none
  | some b => let k := u8AsI8 b; if k < 0 ∨ k > hi then none else some k.toNat

/-- `get_bit_index` -/
def fBit (v : Int) : Option Nat := if v < 0 ∨ v > 7 then none else some v.toNat

/-- relative target: `rel = k - (current_address + 1)`, range check, `rel as u16 & mask` -/
def fRel (lo hi : Int) (mask : Nat) (addr : Nat) (t : Int) : Option Nat :=
  let rel := t - ((addr : Int) + 1)
  if rel < lo ∨ rel > hi then none else some (asU 16 rel &&& mask)

/-! ### bit packing: the Rust shifts and masks -/

def packRR (base d r : Nat) : Nat := base ||| (d <<< 4) ||| ((r &&& 0x10) <<< 5) ||| (r &&& 0x0f)
def packImm (base d k : Nat) : Nat := base ||| ((d &&& 0x0f) <<< 4) ||| ((k &&& 0xf0) <<< 4) ||| (k &&& 0x0f)
def packAdiw (base d k : Nat) : Nat := base ||| (((d - 24) / 2) <<< 4) ||| ((k &&& 0x30) <<< 2) ||| (k &&& 0x0f)
def packOne (base r : Nat) : Nat := base ||| (r <<< 4)
def packSer (base r : Nat) : Nat := base ||| ((r &&& 0x0f) <<< 4)
def packMuls (base d r : Nat) : Nat := base ||| ((d &&& 0x0f) <<< 4) ||| (r &&& 0x0f)
def packMulf (base d r : Nat) : Nat := base ||| ((d &&& 0x07) <<< 4) ||| (r &&& 0x07)
def packJmp1 (base k : Nat) : Nat := base ||| ((k &&& 0x3e0000) >>> 13) ||| ((k &&& 0x010000) >>> 16)
def packBr (base sbits num relf : Nat) : Nat := base ||| sbits ||| num ||| (relf <<< 3)
def packMovw (base d r : Nat) : Nat := base ||| ((d / 2) <<< 4) ||| (r / 2)
def packLds16 (base r k : Nat) : Nat :=
  base ||| ((r &&& 0x0f) <<< 4) ||| ((k &&& 0x40) <<< 2) ||| ((k &&& 0x30) <<< 5) ||| (k &&& 0x0f)
def packDisp (k : Nat) : Nat := ((k &&& 0x20) <<< 8) ||| ((k &&& 0x18) <<< 7) ||| (k &&& 0x07)
def packIo (base r k : Nat) : Nat := base ||| (r <<< 4) ||| ((k &&& 0x30) <<< 5) ||| (k &&& 0x0f)

def regValue : Reg16 → Nat
  | .x => 0b1100 | .y => 0b1000 | .z => 0b0000

/-- the `match i` of the ld/st arm: index bits, or failure -/
def indexBits : AIndex → Option Nat
  | .plain r => some ((if r = .x then 0x1000 else 0) ||| regValue r)
  | .postInc r => some (0b01 ||| 0x1000 ||| regValue r)
  | .preDec r => some (0b10 ||| 0x1000 ||| regValue r)
  | .disp r q =>
    if r = .x then none else
    match q with
    | none => none
    | some v => (fSmall 63 v).map fun k => regValue r ||| packDisp k

/-! the arms of the `match op` of `process`, one small function per arm -/

abbrev W := Option (Nat × Option Nat)

def eRR (base : Nat) : List AArg → W
  | [.reg d, .reg r] => some (packRR base d r, none)
  | _ => none

def eAdiw (base : Nat) : List AArg → W
  | [.reg d, .val v] =>
    if !(d == 24 || d == 26 || d == 28 || d == 30) then none else
    (fSmall 63 v).map fun k => (packAdiw base d k, none)
  | _ => none

def eImm (base : Nat) (cbr : Bool) : List AArg → W
  | [.reg d, .val v] =>
    if d < 16 then none else (fByte v).map fun k => (packImm base d (if cbr then 0xff - k else k), none)
  | _ => none

def eOne (base : Nat) : List AArg → W
  | [.reg r] => some (packOne base r, none)
  | _ => none

def eSame (base : Nat) : List AArg → W
  | [.reg r] => some (packRR base r r, none)
  | _ => none

def eSer (base : Nat) : List AArg → W
  | [.reg r] => if r < 16 then none else some (packSer base r, none)
  | _ => none

def eMuls (base : Nat) : List AArg → W
  | [.reg d, .reg r] => if d < 16 ∨ r < 16 then none else some (packMuls base d r, none)
  | _ => none

def eMulf (base : Nat) : List AArg → W
  | [.reg d, .reg r] =>
    if d < 16 ∨ d > 23 ∨ r < 16 ∨ r > 23 then none else some (packMulf base d r, none)
  | _ => none

def eRel (base addr : Nat) : List AArg → W
  | [.val t] => (fRel (-2048) 2047 0x0fff addr t).map fun f => (base ||| f, none)
  | _ => none

def eAbs (base : Nat) : List AArg → W
  | [.val k] =>
    if k < 0 ∨ k > 4194303 then none else some (packJmp1 base k.toNat, some (k.toNat &&& 0xffff))
  | _ => none

def eBrb (base addr : Nat) (num : Option Nat) : List AArg → W
  | [.val s, .val t] =>
    match fBit s, num, fRel (-64) 63 0x7f addr t with
    | some sb, some num, some f => some (packBr base sb num f, none)
    | _, _, _ => none
  | _ => none

def eBr (base addr : Nat) (num : Option Nat) : List AArg → W
  | [.val t] =>
    match num, fRel (-64) 63 0x7f addr t with
    | some num, some f => some (packBr base 0 num f, none)
    | _, _ => none
  | _ => none

def eMovw (base : Nat) : List AArg → W
  | [.reg d, .reg r] => if d % 2 ≠ 0 ∨ r % 2 ≠ 0 then none else some (packMovw base d r, none)
  | _ => none

def eDirect (avr8l : Bool) (base r : Nat) (k : Int) : W :=
  if avr8l then
    if r < 16 then none else
    if k < 0x40 ∨ k > 0xbf then none else some (packLds16 base r k.toNat, none)
  else
    if k < 0 ∨ k > 65535 then none else some (packOne base r, some (k.toNat &&& 0xffff))

def eLds (avr8l : Bool) (base : Nat) : List AArg → W
  | [.reg r, .val k] => eDirect avr8l base r k
  | _ => none

def eSts (avr8l : Bool) (base : Nat) : List AArg → W
  | [.val k, .reg r] => eDirect avr8l base r k
  | _ => none

def eLd (base : Nat) : List AArg → W
  | [.reg r, .idx i] => (indexBits i).map fun b => (packOne base r ||| b, none)
  | _ => none

def eSt (base : Nat) : List AArg → W
  | [.idx i, .reg r] => (indexBits i).map fun b => (packOne base r ||| b, none)
  | _ => none

def eLpm (base : Nat) (elpm : Bool) : List AArg → W
  | [] => some (if elpm then 0x95d8 else 0x95c8, none)
  | [.reg r, .idx i] =>
    let bits : Option Nat := match i with
      | .plain .z => some 0b100
      | .postInc .z => some 0b101
      | _ => none
    bits.map fun b => (packOne base r ||| b ||| (if elpm then 0b10 else 0), none)
  | _ => none

def eIn (base : Nat) : List AArg → W
  | [.reg r, .val v] => (fSmall 63 v).map fun k => (packIo base r k, none)
  | _ => none

def eOut (base : Nat) : List AArg → W
  | [.val v, .reg r] => (fSmall 63 v).map fun k => (packIo base r k, none)
  | _ => none

def eRegBit (base : Nat) : List AArg → W
  | [.reg r, .val v] => (fBit v).map fun b => (packOne base r ||| b, none)
  | _ => none

def eIoBit (base : Nat) : List AArg → W
  | [.val a, .val b] =>
    match fSmall 31 a, fBit b with
    | some k, some bb => some (base ||| (k <<< 3) ||| bb, none)
    | _, _ => none
  | _ => none

def eFlagV (base : Nat) : List AArg → W
  | [.val v] => (fBit v).map fun k => (base ||| (k <<< 4), none)
  | _ => none

def eFlag (base : Nat) (num : Option Nat) : List AArg → W
  | [] => num.map fun k => (base ||| (k <<< 4), none)
  | _ => none

def eNone (base : Nat) : List AArg → W
  | [] => some (base, none)
  | _ => none

/-- first word and optional second word; `none` = `bail!` -/
def encodeR (avr8l : Bool) (op : Op) (args : List AArg) (addr : Nat) (base : Nat) : W :=
  match op with
  | .add | .adc | .sub | .sbc | .and | .or | .eor | .cpse | .cp | .cpc | .mov | .mul => eRR base args
  | .adiw | .sbiw => eAdiw base args
  | .subi | .sbci | .andi | .ori | .sbr | .cpi | .ldi => eImm base false args
  | .cbr => eImm base true args
  | .com | .neg | .inc | .dec | .push | .pop | .lsr | .ror | .asr | .swap => eOne base args
  | .tst | .clr | .lsl | .rol => eSame base args
  | .ser => eSer base args
  | .muls => eMuls base args
  | .mulsu | .fmul | .fmuls | .fmulsu => eMulf base args
  | .rjmp | .rcall => eRel base addr args
  | .jmp | .call => eAbs base args
  | .br .bs | .br .bc => eBrb base addr (lookupOp op Gen.brNum) args
  | .br _ => eBr base addr (lookupOp op Gen.brNum) args
  | .movw => eMovw base args
  | .lds => eLds avr8l base args
  | .sts => eSts avr8l base args
  | .ld | .ldd => eLd base args
  | .st | .std => eSt base args
  | .lpm => eLpm base false args
  | .elpm => eLpm base true args
  | .in => eIn base args
  | .out => eOut base args
  | .sbrc | .sbrs | .bst | .bld => eRegBit base args
  | .sbi | .cbi | .sbis | .sbic => eIoBit base args
  | .bset | .bclr => eFlagV base args
  | .se _ | .cl _ => eFlag base (lookupOp op Gen.sfNum) args
  | _ => eNone base args

/-- allowed operand counts (the arity table at the top of `process`) -/
def allowedArgs : Op → List Nat
  | .add | .adc | .sub | .sbc | .and | .or | .eor | .cpse | .cp | .cpc | .mov | .mul
  | .adiw | .sbiw | .subi | .sbci | .andi | .ori | .sbr | .cbr | .cpi | .ldi | .muls
  | .mulsu | .fmul | .fmuls | .fmulsu | .movw | .lds | .sts | .ld | .st | .ldd | .std
  | .in | .out | .sbrc | .sbrs | .bst | .bld | .sbi | .cbi | .sbis | .sbic
  | .br .bs | .br .bc => [2]
  | .com | .neg | .inc | .dec | .push | .pop | .lsr | .ror | .asr | .swap | .tst | .clr
  | .lsl | .rol | .ser | .rjmp | .rcall | .jmp | .call | .bset | .bclr | .br _ => [1]
  | .lpm | .elpm => [0, 2]
  | _ => [0]

def wordsBytes : Nat × Option Nat → List Nat
  | (w, none) => leBytes 2 w
  | (w, some w2) => leBytes 2 w ++ leBytes 2 w2

/-- `instruction::process` : bytes, little-endian, one or two words -/
def process (c : Ctx) (op : Op) (args : List IOp) (addr : Nat) : EncRes :=
  if !(allowedArgs op).contains args.length then .err else
  match info c.device.isAvr8l op with
  | none => .err
  | some (_, base) =>
    match resolve c (accessors op) args with
    | none => .oof
    | some rargs =>
      match encodeR c.device.isAvr8l op rargs addr base with
      | some ws => .ok (wordsBytes ws)
      | none => .err

end Avra.Model
