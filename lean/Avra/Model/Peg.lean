/-
  Char-level mirror of the peg grammar in /repo/src/document.rs, rule for rule, ordered choice
  for ordered choice.  The operator table, the keyword lists come from Gen (regenerated from
  document.rs on every run).

  A parser is a function `Str → Option (α × Str)` (value and remaining input); the expression
  parser is three-valued (`PR`) because it takes fuel.
-/
import Avra.Ast
import Avra.Gen.Grammar
import Avra.Gen.Tables
namespace Avra.Peg
open Avra

/-- three-valued parse result (ok / definite syntax failure / out of fuel) -/
inductive PR (α : Type)
  | ok (v : α) (rest : Str)
  | fail
  | oof
  deriving Repr, DecidableEq

/-- `space()` : skip blanks and tabs -/
def skipSpace : Str → Str
  | c :: cs => if isSpace c then skipSpace cs else c :: cs
  | [] => []

/-- `ne_space()` -/
def neSpace : Str → Option Str
  | c :: cs => if isSpace c then some (skipSpace cs) else none
  | [] => none

/-- longest prefix whose characters satisfy `p` -/
def takeWhileP (p : Char → Bool) : Str → Str × Str
  | c :: cs => if p c then let r := takeWhileP p cs; (c :: r.1, r.2) else ([], c :: cs)
  | [] => ([], [])

/-- literal prefix match -/
def lit : Str → Str → Option Str
  | [], s => some s
  | _ :: _, [] => none
  | p :: ps, c :: cs => if p = c then lit ps cs else none

/-- `ident()` / `e_ident()` : the matched text -/
def identText (s : Str) : Option (Str × Str) :=
  match s with
  | c :: cs => if isIdentStart c then let r := takeWhileP isIdentChar cs; some (c :: r.1, r.2) else none
  | [] => none

/-- `label()` : ident ":" ; the name is lower-cased -/
def label (s : Str) : Option (Str × Str) :=
  match identText s with
  | some (n, ':' :: rest) => some (lower n, rest)
  | _ => none

def notStrEnd (c : Char) : Bool := c != '"' && c != '\n' && c != '\r'
def notChEnd (c : Char) : Bool := c != '\'' && c != '\n' && c != '\r'

/-- `string()` -/
def string (s : Str) : Option (Str × Str) :=
  match s with
  | '"' :: cs =>
    let r := takeWhileP notStrEnd cs
    match r.2 with
    | '"' :: rest => some (r.1, rest)
    | _ => none
  | _ => none

/-- `ch()` : exactly one character between single quotes -/
def ch (s : Str) : Option (Char × Str) :=
  match s with
  | '\'' :: c :: '\'' :: rest => if notChEnd c then some (c, rest) else none
  | _ => none

/-- one alternative of `e_const()`: prefix, digit class, radix; fails when the value does not
    fit an i64 (the `{? }` action) -/
def constAlt (pre : Str) (cls : Char → Bool) (radix : Nat) (s : Str) : Option (Int × Str) :=
  match lit pre s with
  | none => none
  | some s1 =>
    let r := takeWhileP cls s1
    if r.1.isEmpty then none
    else
      let v := digitsVal radix r.1
      if v < 2 ^ 63 then some ((v : Int), r.2) else none

def isBinDigit (c : Char) : Bool := c == '0' || c == '1'
def isOctDigit (c : Char) : Bool := '0' ≤ c && c ≤ '7'

/-- `e_const()` : five alternatives in order -/
def eConst (s : Str) : Option (Int × Str) :=
  (constAlt ['$'] isHexDigit 16 s).orElse fun _ =>
  (constAlt ['0', 'x'] isHexDigit 16 s).orElse fun _ =>
  (constAlt ['0', 'b'] isBinDigit 2 s).orElse fun _ =>
  (constAlt ['0'] isOctDigit 8 s).orElse fun _ =>
  constAlt [] isDigit 10 s

open Gen in
/-- prefix operators of the table with the level their operand is parsed at, in textual order -/
def prefixOps : List (Str × UnOp × Nat) :=
  let rec go (lv : Nat) : List (List (Str × OpKind)) → List (Str × UnOp × Nat)
    | [] => []
    | l :: ls =>
      (l.filterMap fun (t, k) =>
        match k with
        | .prefixSame u => some (t, u, lv)
        | .prefixUp u => some (t, u, lv + 1)
        | _ => none) ++ go (lv + 1) ls
  go 0 opLevels

open Gen in
/-- infix operators: (text, operator, own level, level of the right operand), by level then
    textual order -/
def infixOps : List (Str × BinOp × Nat × Nat) :=
  let rec go (lv : Nat) : List (List (Str × OpKind)) → List (Str × BinOp × Nat × Nat)
    | [] => []
    | l :: ls =>
      (l.filterMap fun (t, k) =>
        match k with
        | .infixL b => some (t, b, lv, lv + 1)
        | .infixR b => some (t, b, lv, lv)
        | _ => none) ++ go (lv + 1) ls
  go 0 opLevels

mutual
/-- peg's `__infix_parse` at minimum level `m` -/
def parseInfix : Nat → Nat → Str → PR Expr
  | 0, _, _ => .oof
  | f + 1, m, s =>
    match parsePrefixAtom f s with
    | .ok e rest => parseLoop f m e rest
    | .fail => .fail
    | .oof => .oof

/-- prefix operators (in textual order, tried at any minimum level), then the atoms -/
def parsePrefixAtom : Nat → Str → PR Expr
  | 0, _ => .oof
  | f + 1, s => tryPrefix f prefixOps s

def tryPrefix : Nat → List (Str × UnOp × Nat) → Str → PR Expr
  | 0, _, _ => .oof
  | f + 1, [], s => parseAtom f s
  | f + 1, (t, u, lv) :: more, s =>
    match lit t s with
    | some s1 =>
      match parseInfix f lv (if Gen.prefixSpace then skipSpace s1 else s1) with
      | .ok e rest => .ok (.un u e) rest
      | .fail => tryPrefix f more s
      | .oof => .oof
    | none => tryPrefix f more s

/-- the five atoms, in order: function call, parenthesis, constant, char, identifier -/
def parseAtom : Nat → Str → PR Expr
  | 0, _ => .oof
  | f + 1, s =>
    -- n:e_ident() space() "(" space() args:expr() space() ")"
    let funcAlt : PR Expr :=
      match identText s with
      | some (n, r1) =>
        match skipSpace r1 with
        | '(' :: r2 =>
          match parseInfix f 0 (skipSpace r2) with
          | .ok a r3 =>
            match skipSpace r3 with
            | ')' :: r4 => .ok (.func (.ident n) a) r4
            | _ => .fail
          | .fail => .fail
          | .oof => .oof
        | _ => .fail
      | none => .fail
    match funcAlt with
    | .ok e r => .ok e r
    | .oof => .oof
    | .fail =>
      -- "(" space() be:expr() space() ")"
      let parenAlt : PR Expr :=
        match s with
        | '(' :: r1 =>
          match parseInfix f 0 (skipSpace r1) with
          | .ok a r2 =>
            match skipSpace r2 with
            | ')' :: r3 => .ok a r3
            | _ => .fail
          | .fail => .fail
          | .oof => .oof
        | _ => .fail
      match parenAlt with
      | .ok e r => .ok e r
      | .oof => .oof
      | .fail =>
        match eConst s with
        | some (v, r) => .ok (.const v) r
        | none =>
          match ch s with
          | some (c, r) => .ok (.const (c.toNat : Int)) r
          | none =>
            match identText s with
            | some (n, r) => .ok (.ident n) r
            | none => .fail

/-- the infix loop: scan the levels ≥ m from the loosest, take the first operator whose text
    matches and whose right operand parses; repeat -/
def parseLoop : Nat → Nat → Expr → Str → PR Expr
  | 0, _, _, _ => .oof
  | f + 1, m, e, s => tryInfix f m infixOps e s s

/-- `s0` is the position of the loop (returned unchanged when nothing applies) -/
def tryInfix : Nat → Nat → List (Str × BinOp × Nat × Nat) → Expr → Str → Str → PR Expr
  | 0, _, _, _, _, _ => .oof
  | _ + 1, _, [], e, s0, _ => .ok e s0
  | f + 1, m, (t, b, lv, rl) :: more, e, s0, s =>
    if lv < m then tryInfix f m more e s0 s
    else
      match lit t (skipSpace s) with
      | some s1 =>
        match parseInfix f rl (skipSpace s1) with
        | .ok r rest => parseLoop f m (.bin b e r) rest
        | .fail => tryInfix f m more e s0 s
        | .oof => .oof
      | none => tryInfix f m more e s0 s
end

/-- fuel that always suffices: every recursive descent consumes a character, and between two
    descents at most |prefixOps| + |infixOps| + 4 fuel is spent on table scans -/
def exprFuel (s : Str) : Nat := (s.length + 2) * (prefixOps.length + infixOps.length + 8)

/-- `expr()` -/
def expr (s : Str) : PR Expr := parseInfix (exprFuel s) 0 s

/-- Option view used by the non-recursive rules; out-of-fuel is kept distinct by the caller -/
def exprO (s : Str) : Option (Expr × Str) :=
  match expr s with
  | .ok e r => some (e, r)
  | _ => none

def branchOfName : Str → Option BranchT
  | ['e','q'] => some .eq | ['n','e'] => some .ne | ['c','s'] => some .cs | ['c','c'] => some .cc
  | ['s','h'] => some .sh | ['l','o'] => some .lo | ['m','i'] => some .mi | ['p','l'] => some .pl
  | ['g','e'] => some .ge | ['l','t'] => some .lt | ['h','s'] => some .hs | ['h','c'] => some .hc
  | ['t','s'] => some .ts | ['t','c'] => some .tc | ['v','s'] => some .vs | ['v','c'] => some .vc
  | ['i','e'] => some .ie | ['i','d'] => some .id | ['b','s'] => some .bs | ['b','c'] => some .bc
  | _ => none

def flagOfName : Str → Option SFlag
  | ['c'] => some .c | ['z'] => some .z | ['n'] => some .n | ['v'] => some .v
  | ['s'] => some .s | ['h'] => some .h | ['t'] => some .t | ['i'] => some .i
  | _ => none

/-- strum `Operation::from_str` on the lower-case names (disabled variants excluded) -/
def stdOps : List (Str × Op) := [
  ("add".toList, .add), ("adc".toList, .adc), ("adiw".toList, .adiw), ("sub".toList, .sub),
  ("subi".toList, .subi), ("sbc".toList, .sbc), ("sbci".toList, .sbci), ("sbiw".toList, .sbiw),
  ("and".toList, .and), ("andi".toList, .andi), ("or".toList, .or), ("ori".toList, .ori),
  ("eor".toList, .eor), ("com".toList, .com), ("neg".toList, .neg), ("sbr".toList, .sbr),
  ("cbr".toList, .cbr), ("inc".toList, .inc), ("dec".toList, .dec), ("tst".toList, .tst),
  ("clr".toList, .clr), ("ser".toList, .ser), ("mul".toList, .mul), ("muls".toList, .muls),
  ("mulsu".toList, .mulsu), ("fmul".toList, .fmul), ("fmuls".toList, .fmuls),
  ("fmulsu".toList, .fmulsu), ("rjmp".toList, .rjmp), ("ijmp".toList, .ijmp),
  ("eijmp".toList, .eijmp), ("jmp".toList, .jmp), ("rcall".toList, .rcall),
  ("icall".toList, .icall), ("eicall".toList, .eicall), ("call".toList, .call),
  ("ret".toList, .ret), ("reti".toList, .reti), ("cpse".toList, .cpse), ("cp".toList, .cp),
  ("cpc".toList, .cpc), ("cpi".toList, .cpi), ("sbic".toList, .sbic), ("sbis".toList, .sbis),
  ("sbrc".toList, .sbrc), ("sbrs".toList, .sbrs), ("mov".toList, .mov), ("movw".toList, .movw),
  ("ldi".toList, .ldi), ("lds".toList, .lds), ("ld".toList, .ld), ("ldd".toList, .ldd),
  ("sts".toList, .sts), ("st".toList, .st), ("std".toList, .std), ("lpm".toList, .lpm),
  ("elpm".toList, .elpm), ("spm".toList, .spm), ("in".toList, .in), ("out".toList, .out),
  ("cbi".toList, .cbi), ("sbi".toList, .sbi), ("push".toList, .push), ("pop".toList, .pop),
  ("lsl".toList, .lsl), ("lsr".toList, .lsr), ("rol".toList, .rol), ("ror".toList, .ror),
  ("asr".toList, .asr), ("swap".toList, .swap), ("bset".toList, .bset), ("bclr".toList, .bclr),
  ("bst".toList, .bst), ("bld".toList, .bld), ("break".toList, .break), ("nop".toList, .nop),
  ("sleep".toList, .sleep), ("wdr".toList, .wdr)]

/-- first keyword of the list that is a prefix of `s` (peg ordered choice of literals) -/
def firstKeyword : List Str → Str → Option (Str × Str)
  | [], _ => none
  | k :: ks, s =>
    match lit k s with
    | some rest => some (k, rest)
    | none => firstKeyword ks s

/-- `standard_operation()` applied to a whole (lower-cased) word: the rule must consume it all -/
def standardOperation (w : Str) : Option Op :=
  let brAlt : Option (Op × Str) :=
    match lit ['b', 'r'] w with
    | some r =>
      match firstKeyword Gen.branchKeywords r with
      | some (k, rest) => (branchOfName k).map fun b => (Op.br b, rest)
      | none => none
    | none => none
  let seAlt : Option (Op × Str) :=
    match lit ['s', 'e'] w with
    | some r =>
      match firstKeyword Gen.flagKeywords r with
      | some (k, rest) => (flagOfName k).map fun f => (Op.se f, rest)
      | none => none
    | none => none
  let clAlt : Option (Op × Str) :=
    match lit ['c', 'l'] w with
    | some r =>
      match firstKeyword Gen.flagKeywords r with
      | some (k, rest) => (flagOfName k).map fun f => (Op.cl f, rest)
      | none => none
    | none => none
  let opAlt : Option (Op × Str) :=
    match firstKeyword Gen.opKeywords w with
    | some (k, rest) => (alookup k stdOps).map fun o => (o, rest)
    | none => none
  match brAlt.orElse (fun _ => seAlt.orElse fun _ => clAlt.orElse fun _ => opAlt) with
  | some (o, []) => some o
  | _ => none

/-- `operation()` : an identifier; a standard mnemonic (any letter case) or a macro name -/
def operation (s : Str) : Option (Op × Str) :=
  match identText s with
  | some (n, rest) =>
    let w := lower n
    match standardOperation w with
    | some o => some (o, rest)
    | none => some (.custom w, rest)
  | none => none

/-- number of a register name "r0".."r31" (strum from_str: exact spelling) -/
def regOfDigits (ds : Str) : Option Nat :=
  match ds with
  | [a] => if isDigit a then some (digitVal a) else none
  | [a, b] =>
    if isDigit a && isDigit b && a != '0' then
      let v := digitVal a * 10 + digitVal b
      if v < 32 then some v else none
    else none
  | _ => none

/-- `reg8()` : [rR] followed by one or two digits (greedy); fails when not r0..r31 -/
def reg8 (s : Str) : Option (Nat × Str) :=
  match s with
  | c :: cs =>
    if c == 'r' || c == 'R' then
      match cs with
      | a :: b :: rest =>
        if isDigit a then
          if isDigit b then (regOfDigits [a, b]).map fun n => (n, rest)
          else (regOfDigits [a]).map fun n => (n, b :: rest)
        else none
      | [a] => if isDigit a then (regOfDigits [a]).map fun n => (n, []) else none
      | [] => none
    else none
  | [] => none

def reg16 (s : Str) : Option (Reg16 × Str) :=
  match s with
  | c :: rest =>
    if c == 'x' || c == 'X' then some (.x, rest)
    else if c == 'y' || c == 'Y' then some (.y, rest)
    else if c == 'z' || c == 'Z' then some (.z, rest)
    else none
  | [] => none

/-- result of a rule that may contain an expression: keeps out-of-fuel apart -/
inductive PO (α : Type)
  | ok (v : α) (rest : Str)
  | fail
  | oof

/-- `index_ops()` -/
def indexOps (s : Str) : PO IndexOps :=
  let a1 : Option (IndexOps × Str) :=
    match s with
    | '-' :: r => (reg16 r).map fun (x, rest) => (IndexOps.preDec x, rest)
    | _ => none
  match a1 with
  | some (v, r) => .ok v r
  | none =>
    match reg16 s with
    | none => .fail
    | some (x, r) =>
      -- r:reg16() "+"   /   r:reg16() !char_ident()
      let alt34 : PO IndexOps :=
        match r with
        | '+' :: r' => .ok (.postInc x) r'
        | c :: _ => if isIdentChar c then .fail else .ok (.none x) r
        | [] => .ok (.none x) r
      -- r:reg16() space() "+" space() e:expr()
      match skipSpace r with
      | '+' :: r2 =>
        match expr (skipSpace r2) with
        | .ok e rest => .ok (.postIncE x e) rest
        | .oof => .oof
        | .fail => alt34
      | _ => alt34

/-- `instruction_ops()` -/
def instructionOps (s : Str) : PO IOp :=
  match indexOps s with
  | .ok v r => .ok (.index v) r
  | .oof => .oof
  | .fail =>
    match reg8 s with
    | some (n, r) => .ok (.r8 n) r
    | none =>
      match expr s with
      | .ok e r => .ok (.e e) r
      | .oof => .oof
      | .fail => .fail

/-- `delimiter()` = space() "," space() -/
def delimiter (s : Str) : Option Str :=
  match skipSpace s with
  | ',' :: r => some (skipSpace r)
  | _ => none

/-- tail of `x ** delimiter()` after the first element; fuel bounds the number of elements -/
def sepTail {α : Type} (p : Str → PO α) : Nat → List α → Str → PO (List α)
  | 0, _, _ => .oof
  | f + 1, acc, s =>
    match delimiter s with
    | none => .ok acc.reverse s
    | some s1 =>
      match p s1 with
      | .ok v r => sepTail p f (v :: acc) r
      | .oof => .oof
      | .fail => .ok acc.reverse s

/-- `p ** delimiter()` -/
def sepList {α : Type} (p : Str → PO α) (s : Str) : PO (List α) :=
  match p s with
  | .ok v r => sepTail p (s.length + 1) [v] r
  | .oof => .oof
  | .fail => .ok [] s

def opList (s : Str) : PO (List IOp) := sepList instructionOps s

/-- `comment()?` followed by end of input: returns true when the rest of the line is consumed.
    `;` and `//` comments swallow everything; `/* */` must close on the line and may be
    followed only by line-end characters. -/
def isNl (c : Char) : Bool := c == '\n' || c == '\r'

def cCommentBody : Str → Option Str
  | '*' :: '/' :: rest => some rest
  | c :: cs => if isNl c then none else cCommentBody cs
  | [] => none

/-- `comment()` : the remaining input after the comment -/
def comment (s : Str) : Option Str :=
  match s with
  | ';' :: _ => some []
  | '/' :: '*' :: r =>
    match cCommentBody r with
    | some rest => some (takeWhileP isNl (skipSpace rest)).2
    | none => none
  | '/' :: '/' :: _ => some []
  | _ => none

/-- `comment()?` then end of input -/
def optCommentEnd (s : Str) : Bool :=
  match comment s with
  | some rest => rest.isEmpty
  | none => s.isEmpty

/-- `directive()` : "." or "#" followed by lower-case letters -/
def isLowerAlpha (c : Char) : Bool := 'a' ≤ c && c ≤ 'z'

def directiveOfName (n : Str) : Directive :=
  match alookup n Gen.directiveTable with
  | some d => d
  | none => .custom n

def directive (s : Str) : Option (Directive × Str) :=
  match s with
  | c :: cs =>
    if c == '.' || c == '#' then
      let r := takeWhileP isLowerAlpha cs
      if r.1.isEmpty then none else some (directiveOfName r.1, r.2)
    else none
  | [] => none

/-- `directive_op()` : expression, else string -/
def directiveOp (s : Str) : PO Operand :=
  match expr s with
  | .ok e r => .ok (.e e) r
  | .oof => .oof
  | .fail =>
    match string s with
    | some (t, r) => .ok (.s t) r
    | none => .fail

/-- exactly `n` directive operands separated by `ne_space()` (the "pragma hack" alternatives) -/
def spacedOps : Nat → Str → PO (List Operand)
  | 0, s => .ok [] s
  | 1, s =>
    match directiveOp s with
    | .ok v r => .ok [v] r
    | .oof => .oof
    | .fail => .fail
  | n + 2, s =>
    match directiveOp s with
    | .ok v r =>
      match neSpace r with
      | some r1 =>
        match spacedOps (n + 1) r1 with
        | .ok vs r2 => .ok (v :: vs) r2
        | .oof => .oof
        | .fail => .fail
      | none => .fail
    | .oof => .oof
    | .fail => .fail

/-- `directive_ops()` : assignment, then 6,5,4,3,2 space-separated operands, then a comma list -/
def directiveOps (s : Str) : PO DirectiveOps :=
  let assignAlt : PO DirectiveOps :=
    match identText s with
    | some (a, r) =>
      match skipSpace r with
      | '=' :: r1 =>
        match expr (skipSpace r1) with
        | .ok e r2 => .ok (.assign (.ident a) e) r2
        | .oof => .oof
        | .fail => .fail
      | _ => .fail
    | none => .fail
  match assignAlt with
  | .ok v r => .ok v r
  | .oof => .oof
  | .fail =>
    let rec tryN : List Nat → PO DirectiveOps
      | [] =>
        match sepList directiveOp s with
        | .ok l r => .ok (.opList l) r
        | .oof => .oof
        | .fail => .fail
      | n :: ns =>
        match spacedOps n s with
        | .ok l r => .ok (.opList l) r
        | .oof => .oof
        | .fail => tryN ns
    tryN [6, 5, 4, 3, 2]

/-- result of parsing a whole line -/
inductive LR
  | ok (d : Document)
  | fail
  | oof
  deriving Repr, DecidableEq

/-- `l:label()?` -/
def optLabel (s : Str) : Option Str × Str :=
  match label s with
  | some (n, r) => (some n, r)
  | none => (none, s)

/-- `line()` : five alternatives in order; the first alternative that matches decides, and the
    whole input must then have been consumed (peg does not backtrack into `line` afterwards). -/
def line (s : Str) : LR :=
  let (lab, afterLab) := optLabel s
  -- directive_line
  let dl : PO Document :=
    match directive (skipSpace afterLab) with
    | some (d, r) =>
      match directiveOps (skipSpace r) with
      | .ok ops r1 =>
        let r2 := skipSpace r1
        match comment r2 with
        | some r3 => .ok (.directiveLine lab d ops) r3
        | none => .ok (.directiveLine lab d ops) r2
      | .oof => .oof
      | .fail => .fail
    | none => .fail
  match dl with
  | .ok d r => if r.isEmpty then .ok d else .fail
  | .oof => .oof
  | .fail =>
    -- instruction_line
    let il : PO Document :=
      match operation (skipSpace afterLab) with
      | some (o, r) =>
        match opList (skipSpace r) with
        | .ok ol r1 =>
          let r2 := skipSpace r1
          match comment r2 with
          | some r3 => .ok (.codeLine lab o ol) r3
          | none => .ok (.codeLine lab o ol) r2
        | .oof => .oof
        | .fail => .fail
      | none => .fail
    match il with
    | .ok d r => if r.isEmpty then .ok d else .fail
    | .oof => .oof
    | .fail =>
      -- label space comment?
      match lab with
      | some n =>
        let r := skipSpace afterLab
        match comment r with
        | some r1 => if r1.isEmpty then .ok (.label n) else .fail
        | none => if r.isEmpty then .ok (.label n) else .fail
      | none =>
        -- space comment / space new_line
        let r := skipSpace s
        match comment r with
        | some r1 => if r1.isEmpty then .ok .emptyLine else .fail
        | none => if (takeWhileP isNl r).2.isEmpty then .ok .emptyLine else .fail

end Avra.Peg
