/-
  Mirror of /repo/src/app/main.rs: what the command-line tool does with what the library built.
  Output: exit status and the files written (path as passed to `File::create`, content), in order.
  Printing (stdout) is modelled only as "a failure line was printed".
-/
import Avra.Model.Build
import Avra.Model.Hex
namespace Avra.Model.Cli
open Avra Avra.Model

structure Opts where
  source : Str
  output : Option Str := none
  eeprom : Option Str := none
  verbose : Bool := false
  deriving Repr

structure Res where
  exit : Nat
  /-- files created/truncated and written, in order -/
  writes : List (Str × Str)
  /-- number of "Failed to …" lines printed -/
  failures : Nat
  deriving Repr, DecidableEq

/-- last component, unless the path ends in ".." or is the root (`Path::file_name`) -/
def fileName (p : Str) : Option Str :=
  match (components p).reverse with
  | [] => none
  | c :: _ => if c = ['/'] ∨ c = ['.', '.'] ∨ c = ['.'] then none else some c

/-- `Path::file_stem`: the name up to its last '.', the whole name when it has none or only a
    leading one -/
def fileStem (p : Str) : Option Str :=
  (fileName p).map fun n =>
    let rec lastDot (i : Nat) (best : Option Nat) : Str → Option Nat
      | [] => best
      | c :: cs => lastDot (i + 1) (if c = '.' then some i else best) cs
    match lastDot 0 none n with
    | some 0 => n
    | some k => n.take k
    | none => n

/-- default output next to the source: `<parent or ".">/<stem><ext>` -/
def defaultOut (src : Str) (ext : Str) : Str :=
  pathPush ((pathParent src).getD ['.']) ((fileStem src).getD [] ++ ext)

/-- `File::create(path)` succeeds: the parent directory exists and the path is not a directory -/
def canCreate (fs : Fs) (p : Str) : Bool :=
  !fs.isDir p && fs.isDir ((pathParent p).getD ['.']) && (fileName p).isSome

def hexExt : Str := ['.', 'h', 'e', 'x']
def eepExt : Str := ['.', 'e', 'e', 'p', '.', 'h', 'e', 'x']

/-- the flash / EEPROM paths the tool uses: the option when given, else `<stem>.hex` /
    `<stem>.eep.hex` next to the source -/
def flashPath (o : Opts) : Str := o.output.getD (defaultOut o.source hexExt)
def eepromPath (o : Opts) : Str := o.eeprom.getD (defaultOut o.source eepExt)

/-- one output file: nothing for an empty image; the file, or a reported failure -/
def writeOne (fs : Fs) (path : Str) (img : List Nat) : List (Str × Str) × Nat :=
  if img.isEmpty then ([], 0)
  else if canCreate fs path then ([(path, Hex.fileText img)], 0) else ([], 1)

/-- `main()` : `stdInc` is `get_standard_includes()` -/
def run (fs : Fs) (stdInc : Str) (o : Opts) : Out Res :=
  match buildFile fs o.source [stdInc] with
  | .ok b =>
    let w1 := writeOne fs (flashPath o) b.code
    let w2 := writeOne fs (eepromPath o) b.eeprom
    .ok { exit := if w1.2 + w2.2 > 0 then 1 else 0, writes := w1.1 ++ w2.1, failures := w1.2 + w2.2 }
  | .error _ => .ok { exit := 1, writes := [], failures := 1 }
  | .panic s => .panic s
  | .oof => .oof

end Avra.Model.Cli
