/-
  Mirror of /repo/src/writer.rs (`generate_hex_from_segment`, `write_code_hex`) and of the part
  of the `ihex` crate it uses (`format_record`, `create_object_file_representation`).
  Bytes are natural numbers < 256.
-/
import Avra.Basic
namespace Avra.Model.Hex
open Avra

inductive Record
  | data (offset : Nat) (value : List Nat)
  | eof
  | extSeg (a : Nat)
  | extLin (a : Nat)
  deriving Repr, DecidableEq

/-- `slice::chunks(16)`; fuel = length -/
def chunks (n : Nat) : Nat → List Nat → List (List Nat)
  | 0, _ => []
  | _ + 1, [] => []
  | f + 1, l => l.take n :: chunks n f (l.drop n)

/-- the data records of `generate_hex_from_segment`, chunk index `i` onwards -/
def dataRecords : Nat → List (List Nat) → List Record
  | _, [] => []
  | i, c :: cs =>
    (if i > 0 ∧ i % 4096 = 0 then [Record.extLin (i / 4096 % 65536)] else []) ++
      Record.data (i % 4096 * 16) c :: dataRecords (i + 1) cs

/-- `generate_hex_from_segment` : the records -/
def generate (img : List Nat) : List Record :=
  (if img.length > 0 then Record.extSeg 0 :: dataRecords 0 (chunks 16 img.length img) else []) ++ [Record.eof]

/-- record type, 16-bit address field, payload -/
def recordFields : Record → Nat × Nat × List Nat
  | .data off v => (0, off, v)
  | .eof => (1, 0, [])
  | .extSeg a => (2, 0, [a / 256 % 256, a % 256])
  | .extLin a => (4, 0, [a / 256 % 256, a % 256])

/-- `ihex::checksum` : two's complement of the low byte of the sum -/
def checksum (bs : List Nat) : Nat := (256 - bs.foldl (· + ·) 0 % 256) % 256

/-- `format_record` -/
def recordText (r : Record) : Str :=
  let (t, addr, payload) := recordFields r
  let region := [payload.length % 256, addr / 256 % 256, addr % 256, t] ++ payload
  ':' :: (region ++ [checksum region]).flatMap hex2U

/-- bytes written by `write_code_hex` / `write_eeprom_hex`: every record followed by CR LF, and a
    final CR LF -/
def fileText (img : List Nat) : Str :=
  (generate img).flatMap (fun r => recordText r ++ ['\r', '\n']) ++ ['\r', '\n']

end Avra.Model.Hex
