/-
  Mirror of /repo/src/builder/{pass0,pass1,pass2,mod}.rs, of the `Display` impls used for macro
  argument substitution, and of the data conversions of directive.rs.
-/
import Avra.Model.Parse
import Avra.Model.Encode
namespace Avra.Model
open Avra

/-- UTF-8 encoding of a character (Rust `str::as_bytes`) -/
def utf8Char (c : Char) : List Nat :=
  let n := c.toNat
  if n < 0x80 then [n]
  else if n < 0x800 then [0xC0 + n / 64, 0x80 + n % 64]
  else if n < 0x10000 then [0xE0 + n / 4096, 0x80 + n / 64 % 64, 0x80 + n % 64]
  else [0xF0 + n / 262144, 0x80 + n / 4096 % 64, 0x80 + n / 64 % 64, 0x80 + n % 64]

def utf8 (s : Str) : List Nat := s.flatMap utf8Char

/-! ### Display (macro argument text) -/

def reg16Text : Reg16 → Str
  | .x => ['x'] | .y => ['y'] | .z => ['z']

def exprText : Expr → Str
  | .ident s => s
  | .const v => intToDec v
  | .func n a => exprText n ++ '(' :: exprText a ++ [')']
  | .bin op l r => '(' :: exprText l ++ op.text ++ exprText r ++ [')']
  | .un op e => op.text ++ exprText e

def indexText : IndexOps → Str
  | .none r => reg16Text r
  | .postInc r => reg16Text r ++ ['+']
  | .preDec r => '-' :: reg16Text r
  | .postIncE r e => reg16Text r ++ '+' :: exprText e

def iopText : IOp → Str
  | .r8 n => 'r' :: natToDec n
  | .index i => indexText i
  | .e e => exprText e

/-- `str::replace` : all non-overlapping occurrences, left to right -/
def replaceAll (pat rep : Str) : Nat → Str → Str
  | 0, s => s
  | _, [] => []
  | f + 1, c :: cs =>
    if pat.isEmpty then c :: cs else
    match Peg.lit pat (c :: cs) with
    | some rest => rep ++ replaceAll pat rep f rest
    | none => c :: replaceAll pat rep f cs

/-- `@0`, `@1`, … replaced one after the other, in operand order -/
def substArgs (args : List Str) (line : Str) : Str :=
  let rec go (i : Nat) : List Str → Str → Str
    | [], l => l
    | a :: more, l => go (i + 1) more (replaceAll ('@' :: natToDec i) a (l.length + 1) l)
  go 0 args line

/-! ### pass 0 : macro expansion -/

/-- MAX_MACRO_LINE of pass0.rs -/
def macroLine : Nat := 65536

/-- `macro_expand` : the segments the substituted body parses to -/
def macroExpand (fs : Fs) (macros : List (Str × List (Nat × Str)))
    (st : PState) (ln : Nat) (name : Str) (ops : List IOp) : Out (PState × List Segment) :=
  match alookup name macros with
  | none => lineErr ln "undefined-macro"
  | some body =>
    let body := if ops.isEmpty then body
      else body.map fun (n, l) => (n, substArgs (ops.map iopText) l)
    -- MAX_MACRO_LINE: a body line longer than that (in bytes) after substitution is refused
    if !ops.isEmpty ∧ body.any (fun (_, l) => (utf8 l).length > macroLine) then lineErr ln "macro-line" else
    let inner : PState :=
      { ctx := st.ctx, segments := [{ items := [], t := .code, address := st.lastSeg.address }],
        macros := st.macros, macroName := st.macroName, messages := st.messages }
    match parseIter fs [] [] inner .newLine body with
    | .ok (inner, _) =>
      .ok ({ st with ctx := inner.ctx, macros := inner.macros, macroName := inner.macroName,
                     messages := inner.messages },
           -- non-empty segments, and the last one whatever it holds (where the body left off)
           ((List.zip (List.range inner.segments.length) inner.segments).filter fun (i, s) =>
              i + 1 = inner.segments.length || !s.items.isEmpty).map (·.2))
    | .error e => .error e
    | .panic s => .panic s
    | .oof => .oof

/-- the loop over the second and following segments of an expansion; `inner` expands the items
    of a segment one macro-nesting level deeper -/
def pass0Segs (inner : PState → List (Nat × Item) → Out PState) : PState → List Segment → Out PState
  | st, [] => .ok st
  | st, s :: more =>
    if s.t = .code then
      match inner (st.addSegment { items := [], t := s.t, address := s.address }) s.items with
      | .ok st => pass0Segs inner st more
      | x => x
    else pass0Segs inner (st.addSegment s) more

/-- `pass0_internal` over the items of one segment; `allow` = the nesting depth is below
    MAX_MACRO_DEPTH, so a macro call may be expanded -/
def pass0Items (fs : Fs) (macros : List (Str × List (Nat × Str))) (allow : Bool)
    (inner : PState → List (Nat × Item) → Out PState) : PState → List (Nat × Item) → Out PState
  | st, [] => .ok st
  | st, (ln, it) :: rest =>
    match it with
    | .instruction (.custom name) ops =>
      if !allow then lineErr ln "macro-depth" else
      match macroExpand fs macros st ln name ops with
      | .ok (st, segs) =>
        match segs with
        | [] => pass0Items fs macros allow inner st rest
        | s0 :: more =>
          let cur := st.lastSeg
          let st := if s0.address ≠ cur.address ∨ s0.t ≠ cur.t
            then st.addSegment { items := [], t := s0.t, address := s0.address } else st
          match inner st s0.items with
          | .ok st =>
            match pass0Segs inner st more with
            | .ok st => pass0Items fs macros allow inner st rest
            | x => x
          | x => x
      | .error e => .error e
      | .panic s => .panic s
      | .oof => .oof
    | _ => pass0Items fs macros allow inner (st.pushToLast ln it) rest

/-- macro nesting: `pass0At d` runs at depth MAX_MACRO_DEPTH - d; at depth MAX_MACRO_DEPTH a
    macro call is an error naming the call -/
def pass0At (fs : Fs) (macros : List (Str × List (Nat × Str))) : Nat → PState → List (Nat × Item) → Out PState
  | 0 => pass0Items fs macros false (fun _ _ => .oof)
  | d + 1 => pass0Items fs macros true (pass0At fs macros d)

/-- MAX_MACRO_DEPTH of pass0.rs -/
def macroDepth : Nat := 64

/-- `build_pass_0` -/
def pass0 (fs : Fs) (parsed : ParseResult) (ctx : Ctx) : Out PState :=
  let st0 : PState := { ctx := ctx, segments := [], messages := parsed.messages }
  let rec go : List Segment → PState → Out PState
    | [], st => .ok st
    | s :: more, st =>
      match s.t with
      | .code =>
        match pass0At fs parsed.macros macroDepth (st.addSegment { items := [], t := s.t, address := s.address }) s.items with
        | .ok st => go more st
        | x => x
      | _ => go more (st.addSegment s)
  go parsed.segments st0

/-! ### pass 1 : sizes, labels -/

def operandLen : Operand → Nat
  | .e _ => 1
  | .s s => (utf8 s).length

def actualLen (ops : List Operand) : Nat := ops.foldl (fun a o => a + operandLen o) 0

def segName : SegT → String
  | .code => "code" | .data => "data" | .eeprom => "eeprom"

/-- prepend an output item to the result of the rest of the segment -/
def consItem (x : Nat × Item) : Out (Nat × List (Nat × Item) × Ctx) → Out (Nat × List (Nat × Item) × Ctx)
  | .ok (e, its, c) => .ok (e, x :: its, c)
  | r => r

/-- `pass_1_internal` : (end offset, output items, context) -/
def pass1Items (t : SegT) (limit : Nat) :
    List (Nat × Item) → Nat → Ctx → Out (Nat × List (Nat × Item) × Ctx)
  | [], cur, ctx =>
    if cur > limit then noLineErr "overdue" else .ok (cur, [], ctx)
  | (ln, it) :: rest, cur, ctx =>
    if cur > limit then lineErr ln "overdue" else
    match it with
    | .label name =>
      if ctx.exist name then lineErr ln "label-twice"
      else pass1Items t limit rest cur { ctx with labels := ainsert name (t, cur % 4294967296) ctx.labels }
    | .instruction op _ =>
      match t with
      | .code =>
        match info ctx.device.isAvr8l op with
        | some (len, _) => consItem (ln, it) (pass1Items t limit rest (cur + len) ctx)
        | none => .panic "no info row"
      | _ => lineErr ln "instruction-in-segment"
    | .set _ _ | .def _ _ | .undef _ => consItem (ln, it) (pass1Items t limit rest cur ctx)
    | .data .db ops =>
      match t with
      | .code =>
        let ops' := if actualLen ops % 2 = 1 then ops ++ [.e (.const 0)] else ops
        consItem (ln, .data .db ops') (pass1Items t limit rest (cur + actualLen ops' / 2) ctx)
      | .eeprom => consItem (ln, .data .db ops) (pass1Items t limit rest (cur + actualLen ops) ctx)
      | .data => lineErr ln "db-in-dseg"
    | .data dt ops =>
      let sz := match dt with | .dw => 2 | .dd => 4 | .dq => 8 | .db => 0
      match t with
      | .code => consItem (ln, it) (pass1Items t limit rest (cur + ops.length * (sz / 2)) ctx)
      | .eeprom => consItem (ln, it) (pass1Items t limit rest (cur + ops.length * sz) ctx)
      | .data => lineErr ln "dw-in-dseg"
    | .reserveData n =>
      match t with
      | .code => lineErr ln "byte-in-cseg"
      | _ =>
        if n < 0 ∨ n > 4294967295 then lineErr ln "byte-range" else
        if t = .eeprom then consItem (ln, it) (pass1Items t limit rest (cur + n.toNat) ctx)
        else pass1Items t limit rest (cur + n.toNat) ctx
    | .pragma _ => pass1Items t limit rest cur ctx

structure Pass1Result where
  segments : List Segment
  ramFilling : Nat
  messages : List Str
  ctx : Ctx

/-- `build_pass_1` -/
def pass1 (segs : List Segment) (messages : List Str) (ctx : Ctx) : Out Pass1Result :=
  let dev := ctx.device
  let rec go : List Segment → Nat → Nat → Nat → List Segment → Ctx → Out Pass1Result
    | [], _, dataOff, _, out, ctx =>
      .ok { segments := out.reverse, ramFilling := dataOff - dev.ramStart, messages := messages, ctx := ctx }
    | s :: more, codeOff, dataOff, eeOff, out, ctx =>
      let (offset, limit) := match s.t with
        | .code => (codeOff, dev.flash)
        | .data => (dataOff, dev.ramStart + dev.ramSize)
        | .eeprom => (eeOff, dev.eeprom)
      if s.address ≠ 0 ∧ s.address < offset then noLineErr "overlap" else
      let start := if s.address = 0 then offset else s.address
      match pass1Items s.t limit s.items start ctx with
      | .ok (endOff, items, ctx) =>
        let seg : Segment := { items := items, t := s.t, address := start }
        match s.t with
        | .code => go more endOff dataOff eeOff (seg :: out) ctx
        | .data => go more codeOff endOff eeOff (seg :: out) ctx
        | .eeprom => go more codeOff dataOff endOff (seg :: out) ctx
      | .error e => .error e
      | .panic p => .panic p
      | .oof => .oof
  go segs 0 dev.ramStart 0 [] ctx

/-! ### pass 2 : emission -/

inductive DataRes
  | ok (bytes : List Nat)
  | err
  | oof

/-- `Operand::get_bytes/get_words/get_double_words/get_quad_words` -/
def operandBytes (c : Ctx) (dt : DataDefine) : Operand → DataRes
  | .s s => match dt with | .db => .ok (utf8 s) | _ => .err
  | .e e =>
    match eval c e with
    | .err _ => .err
    | .oof => .oof
    | .ok v =>
      match dt with
      | .db => if v > 255 ∨ v < -128 then .err else .ok (leBytes 1 (asU 8 v))
      | .dw => if v > 65535 ∨ v < -32768 then .err else .ok (leBytes 2 (asU 16 v))
      | .dd => if v > 4294967295 ∨ v < -2147483648 then .err else .ok (leBytes 4 (asU 32 v))
      | .dq => .ok (leBytes 8 (asU 64 v))

def dataBytes (c : Ctx) (dt : DataDefine) : List Operand → DataRes
  | [] => .ok []
  | o :: more =>
    match operandBytes c dt o with
    | .ok b =>
      match dataBytes c dt more with
      | .ok bs => .ok (b ++ bs)
      | x => x
    | x => x

/-- `Device::check_operation` -/
def checkOperation (d : Device) (op : Op) : Bool :=
  match op with
  | .mul | .muls | .mulsu | .fmul | .fmuls | .fmulsu => d.allow .noMul
  | .jmp | .call => d.allow .noJmp
  | .lpm => d.allow .noLpm
  | .elpm => d.allow .noElpm
  | .spm => d.allow .noSpm
  | .eicall => d.allow .noEicall
  | .eijmp => d.allow .noEijmp
  | .break => d.allow .noBreak
  | .movw => d.allow .noMovw
  | .adiw | .sbiw => d.allow .tiny1x && d.allow .avr8l
  | .ijmp | .icall | .ldd | .std | .lds | .sts | .push | .pop => d.allow .tiny1x
  | _ => true

/-- the closure of `check_instruction` applied to every operand of ld/st/ldd/std -/
def argAllowed (d : Device) : IOp → Bool
  | .index i =>
    let pd : Reg16 × Bool := match i with
      | .none r => (r, false) | .postInc r => (r, false) | .preDec r => (r, false)
      | .postIncE r _ => (r, true)
    (match pd.1 with
      | .x => d.allow .noXreg
      | .y => d.allow .noYreg
      | .z => true) && (!pd.2 || d.allow .tiny1x)
  | _ => true

/-- `Device::check_instruction` -/
def checkInstruction (d : Device) (op : Op) (args : List IOp) : Bool :=
  if !checkOperation d op then false else
  match op with
  | .lpm => if !args.isEmpty then d.allow .noLpmX else true
  | .elpm => if !args.isEmpty then d.allow .noElpmX else true
  | .ld | .st | .ldd | .std => args.all (argAllowed d)
  | _ => true

def regOfName (s : Str) : Option Nat :=
  match s with
  | 'r' :: ds => Peg.regOfDigits ds
  | _ => none

/-- `pass_2_internal` -/
def pass2Items (t : SegT) : List (Nat × Item) → Nat → List Nat → Ctx → Out (List Nat × Ctx)
  | [], _, acc, ctx => .ok (acc, ctx)
  | (ln, it) :: rest, cur, acc, ctx =>
    let ctx := { ctx with special := ainsert "pc".toList (.const (cur : Int)) ctx.special }
    match it with
    | .instruction op args =>
      if checkInstruction ctx.device op args then
        match process ctx op args cur with
        | .ok bytes => pass2Items t rest (cur + bytes.length / 2) (acc ++ bytes) ctx
        | .err => lineErr ln "instruction"
        | .oof => .oof
      else lineErr ln "not-allowed-for-device"
    | .data dt ops =>
      match dataBytes ctx dt ops with
      | .ok bytes =>
        pass2Items t rest (cur + (if t = .code then bytes.length / 2 else bytes.length)) (acc ++ bytes) ctx
      | .err => lineErr ln "data"
      | .oof => .oof
    | .reserveData n =>
      pass2Items t rest (cur + n.toNat) (acc ++ List.replicate n.toNat 0) ctx
    | .def alias (.ident reg) =>
      match regOfName (lower reg) with
      | none => lineErr ln "not-a-register"
      | some r =>
        if ctx.exist alias then lineErr ln "def-twice"
        -- set_def() looks the lower-cased name up once more and silently does nothing on a hit
        -- (only a `.define` flag spelled in lower case can differ from the check above)
        else if ctx.exist (lower alias) then pass2Items t rest cur acc ctx
        else pass2Items t rest cur acc { ctx with defs := ainsert (lower alias) r ctx.defs }
    | .def _ _ => lineErr ln "def-not-register"
    | .undef alias =>
      if (alookup (lower alias) ctx.defs).isSome
      then pass2Items t rest cur acc { ctx with defs := aremove (lower alias) ctx.defs }
      else lineErr ln "undef-unknown"
    | .set name e =>
      match eval ctx e with
      | .err _ => lineErr ln "set-expr"
      | .oof => .oof
      | .ok v =>
        let name := lower name
        if ctx.exist name then
          if (alookup name ctx.sets).isSome
          then pass2Items t rest cur acc { ctx with sets := ainsert name (.const v) ctx.sets }
          else lineErr ln "set-twice"
        else pass2Items t rest cur acc { ctx with sets := ainsert name (.const v) ctx.sets }
    | _ => pass2Items t rest cur acc ctx

structure Pass2Result where
  code : List Nat
  eeprom : List Nat
  ramFilling : Nat
  messages : List Str
  ctx : Ctx

/-- `build_pass_2` -/
def pass2 (p1 : Pass1Result) : Out Pass2Result :=
  let rec go : List Segment → List Nat → List Nat → Ctx → Out Pass2Result
    | [], code, ee, ctx =>
      .ok { code := code, eeprom := ee, ramFilling := p1.ramFilling, messages := p1.messages, ctx := ctx }
    | s :: more, code, ee, ctx =>
      let code := match s.t with
        | .code => code ++ List.replicate (2 * (s.address - code.length / 2)) 0
        | _ => code
      let ee := match s.t with
        | .eeprom => ee ++ List.replicate (s.address - ee.length) 0
        | _ => ee
      match pass2Items s.t s.items s.address [] ctx with
      | .ok (frag, ctx) =>
        match s.t with
        | .code => go more (code ++ frag) ee ctx
        | .eeprom => go more code (ee ++ frag) ctx
        | .data => go more code ee ctx
      | .error e => .error e
      | .panic p => .panic p
      | .oof => .oof
  go p1.segments [] [] p1.ctx

/-! ### the whole build -/

structure BuildResult where
  code : List Nat
  eeprom : List Nat
  flashSize : Nat
  eepromSize : Nat
  ramSize : Nat
  ramFilling : Nat
  messages : List Str
  deriving Repr, DecidableEq

def initCtx : Ctx := { device := defaultDevice }

/-- `build_from_parsed` -/
def buildFromParsed (fs : Fs) (st : PState) : Out BuildResult :=
  match pass0 fs st.asParseResult st.ctx with
  | .ok p0 =>
    match pass1 (p0.segments.filter fun s => !s.items.isEmpty) p0.messages p0.ctx with
    | .ok p1 =>
      match pass2 p1 with
      | .ok p2 =>
        let dev := p2.ctx.device
        if p2.code.length > dev.flash * 2 then noLineErr "flash-overdue"
        else if p2.eeprom.length > dev.eeprom then noLineErr "eeprom-overdue"
        else if p2.ramFilling > dev.ramSize then noLineErr "ram-overdue"
        else .ok { code := p2.code, eeprom := p2.eeprom, flashSize := dev.flash,
                   eepromSize := dev.eeprom, ramSize := dev.ramSize,
                   ramFilling := p2.ramFilling, messages := p2.messages }
      | .error e => .error e
      | .panic p => .panic p
      | .oof => .oof
    | .error e => .error e
    | .panic p => .panic p
    | .oof => .oof
  | .error e => .error e
  | .panic p => .panic p
  | .oof => .oof

/-- `build_str` -/
def buildStr (fs : Fs) (src : Str) : Out BuildResult :=
  match parseStr fs src initCtx with
  | .ok st => buildFromParsed fs st
  | .error e => .error e
  | .panic p => .panic p
  | .oof => .oof

/-- `build_file` -/
def buildFile (fs : Fs) (path : Str) (incs : List Str) : Out BuildResult :=
  match parseFile fs path incs initCtx with
  | .ok st => buildFromParsed fs st
  | .error e => .error e
  | .panic p => .panic p
  | .oof => .oof

end Avra.Model
