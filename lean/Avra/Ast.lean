/-
  Abstract syntax shared by the model and the specs (mirrors the Rust enums of /repo:
  expr.rs, instruction/*.rs, directive.rs, document.rs, parser.rs).
-/
import Avra.Basic
namespace Avra

inductive BinOp
  | add | sub | mul | div | rem | band | bxor | bor | shl | shr
  | lt | le | gt | ge | eq | ne | land | lor
  deriving DecidableEq, Repr, Inhabited

inductive UnOp
  | minus | bnot | lnot
  deriving DecidableEq, Repr, Inhabited

inductive Expr
  | ident (s : Str)
  | const (v : Int)
  | func (name : Expr) (arg : Expr)
  | bin (op : BinOp) (l r : Expr)
  | un (op : UnOp) (e : Expr)
  deriving DecidableEq, Repr, Inhabited

/-- operator text as written in the grammar and printed by Rust's `Display`. -/
def BinOp.text : BinOp → Str
  | .add => ['+'] | .sub => ['-'] | .mul => ['*'] | .div => ['/'] | .rem => ['%']
  | .band => ['&'] | .bxor => ['^'] | .bor => ['|'] | .shl => ['<', '<'] | .shr => ['>', '>']
  | .lt => ['<'] | .le => ['<', '='] | .gt => ['>'] | .ge => ['>', '=']
  | .eq => ['=', '='] | .ne => ['!', '='] | .land => ['&', '&'] | .lor => ['|', '|']

def UnOp.text : UnOp → Str
  | .minus => ['-'] | .bnot => ['~'] | .lnot => ['!']

def BinOp.all : List BinOp :=
  [.add, .sub, .mul, .div, .rem, .band, .bxor, .bor, .shl, .shr,
   .lt, .le, .gt, .ge, .eq, .ne, .land, .lor]

def UnOp.all : List UnOp := [.minus, .bnot, .lnot]

inductive BranchT
  | eq | ne | cs | cc | sh | lo | mi | pl | ge | lt | hs | hc | ts | tc | vs | vc | ie | id | bs | bc
  deriving DecidableEq, Repr, Inhabited

inductive SFlag
  | c | z | n | v | s | h | t | i
  deriving DecidableEq, Repr, Inhabited

/-- Rust `Operation` (instruction/operation.rs). -/
inductive Op
  | add | adc | adiw | sub | subi | sbc | sbci | sbiw | and | andi | or | ori | eor | com | neg
  | sbr | cbr | inc | dec | tst | clr | ser | mul | muls | mulsu | fmul | fmuls | fmulsu
  | rjmp | ijmp | eijmp | jmp | rcall | icall | eicall | call | ret | reti
  | cpse | cp | cpc | cpi | br (b : BranchT) | sbic | sbis | sbrc | sbrs
  | mov | movw | ldi | lds | ld | ldd | sts | st | std | lpm | elpm | spm | «in» | out | cbi | sbi
  | push | pop | lsl | lsr | rol | ror | asr | swap | bset | bclr | bst | bld
  | se (f : SFlag) | cl (f : SFlag) | «break» | nop | sleep | wdr
  | custom (name : Str)
  deriving DecidableEq, Repr, Inhabited

inductive Reg16 | x | y | z
  deriving DecidableEq, Repr, Inhabited

inductive IndexOps
  | none (r : Reg16)
  | postInc (r : Reg16)
  | postIncE (r : Reg16) (e : Expr)
  | preDec (r : Reg16)
  deriving DecidableEq, Repr, Inhabited

/-- Rust `InstructionOps`; a `Reg8` is its number 0..31. -/
inductive IOp
  | r8 (n : Nat)
  | index (i : IndexOps)
  | e (e : Expr)
  deriving DecidableEq, Repr, Inhabited

inductive Directive
  | byte | cseg | csegsize | db | «def» | device | dseg | dw | endm | endmacro | equ | eseg | exit
  | «include» | includepath | list | listmac | «macro» | nolist | org | set | define | «else» | elif
  | endif | error | «if» | ifdef | ifndef | message | dd | dq | undef | warning | overlap | nooverlap
  | pragma | custom (name : Str)
  deriving DecidableEq, Repr, Inhabited

inductive Operand
  | e (e : Expr)
  | s (s : Str)
  deriving DecidableEq, Repr, Inhabited

inductive DirectiveOps
  | opList (l : List Operand)
  | assign (a : Expr) (e : Expr)
  deriving DecidableEq, Repr, Inhabited

/-- Rust `Document` (one parsed line); labels are stored lower-cased. -/
inductive Document
  | emptyLine
  | label (name : Str)
  | codeLine (label : Option Str) (op : Op) (args : List IOp)
  | directiveLine (label : Option Str) (d : Directive) (ops : DirectiveOps)
  deriving DecidableEq, Repr, Inhabited

inductive SegT | code | data | eeprom
  deriving DecidableEq, Repr, Inhabited

inductive DataDefine | db | dw | dd | dq
  deriving DecidableEq, Repr, Inhabited

inductive Item
  | reserveData (n : Int)
  | data (t : DataDefine) (ops : List Operand)
  | «def» (name : Str) (e : Expr)
  | undef (name : Str)
  | set (name : Str) (e : Expr)
  | pragma (ops : List Operand)
  | instruction (op : Op) (args : List IOp)
  | label (name : Str)
  deriving DecidableEq, Repr, Inhabited

structure Segment where
  items : List (Nat × Item)      -- (line number, item)
  t : SegT
  address : Nat
  deriving DecidableEq, Repr, Inhabited

inductive DisOpt
  | noMul | noJmp | noXreg | noYreg | tiny1x | noLpm | noLpmX | noElpm | noElpmX | noSpm | noEspm
  | noMovw | noBreak | noEicall | noEijmp | avr8l
  deriving DecidableEq, Repr, Inhabited

structure Device where
  flash : Nat
  ramStart : Nat
  ramSize : Nat
  eeprom : Nat
  opts : List DisOpt
  deriving DecidableEq, Repr, Inhabited

def Device.allow (d : Device) (o : DisOpt) : Bool := !d.opts.contains o
def Device.isAvr8l (d : Device) : Bool := d.opts.contains .avr8l

end Avra
