/-
  The selected lines of a conditional tree: `sel` agrees with `run`, and — when evaluating a
  condition does not change the state — assembling just the selected lines gives the same state.
  (Spec level: any notion of state, line execution and condition.)
-/
import Avra.Spec.Cond
namespace Avra.Lemmas.Sel
open Avra Avra.Spec

variable {St F : Type} (exec : St → Line → Res St F) (holds : St → Line → Res (St × Bool) F)

mutual
theorem block_sel_run : ∀ (b : Block) (s s' : St) (ls : List Line),
    b.sel exec holds s = .ok (s', ls) → b.run exec holds s = .ok s'
  | .plain l, s, s', ls, h => by
    simp only [Block.sel] at h
    simp only [Block.run]
    cases he : exec s l with
    | ok st' => rw [he] at h; simp only [Res.ok.injEq, Prod.mk.injEq] at h; rw [h.1]
    | fail e => rw [he] at h; cases h
  | .cond hd body arms els endl, s, s', ls, h => by
    simp only [Block.sel] at h
    simp only [Block.run]
    cases hh : holds s hd with
    | fail e => rw [hh] at h; cases h
    | ok v =>
      obtain ⟨st, t⟩ := v
      rw [hh] at h
      cases t with
      | true => simp only at h ⊢; exact blocks_sel_run body st s' ls h
      | false =>
        simp only at h ⊢
        cases ha : arms.sel exec holds st with
        | fail e => rw [ha] at h; cases h
        | ok w =>
          obtain ⟨st2, l2, t2⟩ := w
          rw [ha] at h
          rw [arms_sel_run arms st st2 l2 t2 ha]
          cases t2 with
          | true => simp only [Res.ok.injEq, Prod.mk.injEq] at h ⊢; exact h.1
          | false => simp only at h ⊢; exact else_sel_run els st2 s' ls h
theorem blocks_sel_run : ∀ (bs : Blocks) (s s' : St) (ls : List Line),
    bs.sel exec holds s = .ok (s', ls) → bs.run exec holds s = .ok s'
  | .nil, s, s', ls, h => by
    simp only [Blocks.sel, Res.ok.injEq, Prod.mk.injEq] at h
    simp only [Blocks.run, h.1]
  | .cons b bs, s, s', ls, h => by
    simp only [Blocks.sel] at h
    simp only [Blocks.run]
    cases hb : b.sel exec holds s with
    | fail e => rw [hb] at h; cases h
    | ok v =>
      obtain ⟨st, l1⟩ := v
      rw [hb] at h
      rw [block_sel_run b s st l1 hb]
      simp only at h ⊢
      cases hbs : bs.sel exec holds st with
      | fail e => rw [hbs] at h; cases h
      | ok w =>
        obtain ⟨st2, l2⟩ := w
        rw [hbs] at h
        simp only [Res.ok.injEq, Prod.mk.injEq] at h
        rw [← h.1]
        exact blocks_sel_run bs st st2 l2 hbs
theorem arms_sel_run : ∀ (a : Arms) (s s' : St) (ls : List Line) (t : Bool),
    a.sel exec holds s = .ok (s', ls, t) → a.run exec holds s = .ok (s', t)
  | .nil, s, s', ls, t, h => by
    simp only [Arms.sel, Res.ok.injEq, Prod.mk.injEq] at h
    simp only [Arms.run, h.1, h.2.2]
  | .cons l body rest, s, s', ls, t, h => by
    simp only [Arms.sel] at h
    simp only [Arms.run]
    cases hh : holds s l with
    | fail e => rw [hh] at h; cases h
    | ok v =>
      obtain ⟨st, tt⟩ := v
      rw [hh] at h
      cases tt with
      | true =>
        simp only at h ⊢
        cases hb : body.sel exec holds st with
        | fail e => rw [hb] at h; cases h
        | ok w =>
          obtain ⟨st2, l2⟩ := w
          rw [hb] at h
          rw [blocks_sel_run body st st2 l2 hb]
          simp only [Res.ok.injEq, Prod.mk.injEq] at h ⊢
          exact ⟨h.1, h.2.2⟩
      | false => simp only at h ⊢; exact arms_sel_run rest st s' ls t h
theorem else_sel_run : ∀ (e : ElseArm) (s s' : St) (ls : List Line),
    e.sel exec holds s = .ok (s', ls) → e.run exec holds s = .ok s'
  | .none, s, s', ls, h => by
    simp only [ElseArm.sel, Res.ok.injEq, Prod.mk.injEq] at h
    simp only [ElseArm.run, h.1]
  | .some l body, s, s', ls, h => by
    simp only [ElseArm.sel] at h
    simp only [ElseArm.run]
    exact blocks_sel_run body s s' ls h
end

/-- evaluating the condition of one of the lines `cl` leaves the state as it is -/
def PureConds (cl : List Line) : Prop :=
  ∀ l ∈ cl, ∀ (s s' : St) (b : Bool), holds s l = .ok (s', b) → s' = s

theorem PureConds.mono {holds : St → Line → Res (St × Bool) F} {a b : List Line} (h : PureConds holds b)
    (hs : ∀ l ∈ a, l ∈ b) : PureConds holds a := fun l hl => h l (hs l hl)

mutual
theorem block_sel_lines : ∀ (b : Block), PureConds holds b.condLines → ∀ (s s' : St) (ls : List Line),
    b.sel exec holds s = .ok (s', ls) → runLines exec ls s = .ok s'
  | .plain l, _, s, s', ls, h => by
    simp only [Block.sel] at h
    cases he : exec s l with
    | ok st' =>
      rw [he] at h; simp only [Res.ok.injEq, Prod.mk.injEq] at h
      rw [← h.2, ← h.1]; simp [runLines, he]
    | fail e => rw [he] at h; cases h
  | .cond hd body arms els endl, hp, s, s', ls, h => by
    have hpb : PureConds holds body.condLines := hp.mono (by intro l hl; simp [Block.condLines, hl])
    have hpa : PureConds holds arms.condLines := hp.mono (by intro l hl; simp [Block.condLines, hl])
    have hpe : PureConds holds els.condLines := hp.mono (by intro l hl; simp [Block.condLines, hl])
    simp only [Block.sel] at h
    cases hh : holds s hd with
    | fail e => rw [hh] at h; cases h
    | ok v =>
      obtain ⟨st, t⟩ := v
      rw [hh] at h
      have hst : st = s := hp hd (by simp [Block.condLines]) s st t hh
      subst hst
      cases t with
      | true => simp only at h; exact blocks_sel_lines body hpb st s' ls h
      | false =>
        simp only at h
        cases ha : arms.sel exec holds st with
        | fail e => rw [ha] at h; cases h
        | ok w =>
          obtain ⟨st2, l2, t2⟩ := w
          rw [ha] at h
          have har := arms_sel_lines arms hpa st st2 l2 t2 ha
          cases t2 with
          | true =>
            simp only [Res.ok.injEq, Prod.mk.injEq] at h
            rw [← h.1, ← h.2]; exact har.1
          | false =>
            simp only at h
            have : st2 = st := har.2 rfl
            subst this
            exact else_sel_lines els hpe st2 s' ls h
theorem blocks_sel_lines : ∀ (bs : Blocks), PureConds holds bs.condLines → ∀ (s s' : St) (ls : List Line),
    bs.sel exec holds s = .ok (s', ls) → runLines exec ls s = .ok s'
  | .nil, _, s, s', ls, h => by
    simp only [Blocks.sel, Res.ok.injEq, Prod.mk.injEq] at h
    rw [← h.1, ← h.2]; rfl
  | .cons b bs, hp, s, s', ls, h => by
    have hp1 : PureConds holds b.condLines := hp.mono (by intro l hl; simp [Blocks.condLines, hl])
    have hp2 : PureConds holds bs.condLines := hp.mono (by intro l hl; simp [Blocks.condLines, hl])
    simp only [Blocks.sel] at h
    cases hb : b.sel exec holds s with
    | fail e => rw [hb] at h; cases h
    | ok v =>
      obtain ⟨st, l1⟩ := v
      rw [hb] at h
      simp only at h
      cases hbs : bs.sel exec holds st with
      | fail e => rw [hbs] at h; cases h
      | ok w =>
        obtain ⟨st2, l2⟩ := w
        rw [hbs] at h
        simp only [Res.ok.injEq, Prod.mk.injEq] at h
        rw [← h.1, ← h.2, runLines_append exec l1 l2 s st (block_sel_lines b hp1 s st l1 hb)]
        exact blocks_sel_lines bs hp2 st st2 l2 hbs
/-- for the arms: the lines of the arm that ran reproduce the state; when none ran, the state is
    unchanged -/
theorem arms_sel_lines : ∀ (a : Arms), PureConds holds a.condLines → ∀ (s s' : St) (ls : List Line) (t : Bool),
    a.sel exec holds s = .ok (s', ls, t) → runLines exec ls s = .ok s' ∧ (t = false → s' = s)
  | .nil, _, s, s', ls, t, h => by
    simp only [Arms.sel, Res.ok.injEq, Prod.mk.injEq] at h
    rw [← h.1, ← h.2.1]; exact ⟨rfl, fun _ => rfl⟩
  | .cons l body rest, hp, s, s', ls, t, h => by
    have hpb : PureConds holds body.condLines := hp.mono (by intro x hx; simp [Arms.condLines, hx])
    have hpr : PureConds holds rest.condLines := hp.mono (by intro x hx; simp [Arms.condLines, hx])
    simp only [Arms.sel] at h
    cases hh : holds s l with
    | fail e => rw [hh] at h; cases h
    | ok v =>
      obtain ⟨st, tt⟩ := v
      rw [hh] at h
      have hst : st = s := hp l (by simp [Arms.condLines]) s st tt hh
      subst hst
      cases tt with
      | true =>
        simp only at h
        cases hb : body.sel exec holds st with
        | fail e => rw [hb] at h; cases h
        | ok w =>
          obtain ⟨st2, l2⟩ := w
          rw [hb] at h
          simp only [Res.ok.injEq, Prod.mk.injEq] at h
          rw [← h.1, ← h.2.1, ← h.2.2]
          exact ⟨blocks_sel_lines body hpb st st2 l2 hb, fun hf => by cases hf⟩
      | false => simp only at h; exact arms_sel_lines rest hpr st s' ls t h
theorem else_sel_lines : ∀ (e : ElseArm), PureConds holds e.condLines → ∀ (s s' : St) (ls : List Line),
    e.sel exec holds s = .ok (s', ls) → runLines exec ls s = .ok s'
  | .none, _, s, s', ls, h => by
    simp only [ElseArm.sel, Res.ok.injEq, Prod.mk.injEq] at h
    rw [← h.1, ← h.2]; rfl
  | .some l body, hp, s, s', ls, h => by
    simp only [ElseArm.sel] at h
    exact blocks_sel_lines body (hp.mono (by intro x hx; simp [ElseArm.condLines, hx])) s s' ls h
end

/-- a tree of plain lines only runs as the list of its lines -/
theorem plain_run : ∀ (ls : List Line) (s : St), (plainBlocks ls).run exec holds s = runLines exec ls s
  | [], s => rfl
  | l :: ls, s => by
    simp only [plainBlocks, Blocks.run, Block.run, runLines]
    cases exec s l with
    | ok s' => exact plain_run ls s'
    | fail e => rfl

theorem plain_flatten : ∀ (ls : List Line), (plainBlocks ls).flatten = ls
  | [] => rfl
  | l :: ls => by simp [plainBlocks, Blocks.flatten, Block.flatten, plain_flatten ls]

end Avra.Lemmas.Sel
