/-
  Helper lemmas: `process` in terms of resolved operands.
-/
import Avra.Props.EncDefs
namespace Avra.Lemmas
open Avra Avra.Model Avra.Isa Avra.Props.Enc

theorem resolve_length (c : Ctx) : ∀ (accs : List Acc) (args : List IOp) (r : List AArg),
    resolve c accs args = some r → r.length = args.length := by
  intro accs args
  induction args generalizing accs with
  | nil => intro r h; cases accs <;> simp [resolve] at h <;> simp [← h]
  | cons o os ih =>
    intro r h
    cases accs with
    | nil =>
      simp only [resolve] at h
      cases hr : resolve c [] os with
      | none => simp [hr] at h
      | some xs => simp [hr] at h; subst h; simp [ih [] xs hr]
    | cons a as =>
      simp only [resolve] at h
      cases h1 : resolveOne c a o with
      | none => simp [h1] at h
      | some x =>
        cases h2 : resolve c as os with
        | none => simp [h1, h2] at h
        | some xs => simp [h1, h2] at h; subst h; simp [ih as xs h2]

/-- registers written in the source are r0..r31 (the grammar's `reg8` yields nothing else) -/
def iopsOk : List IOp → Prop
  | [] => True
  | .r8 n :: rest => n < 32 ∧ iopsOk rest
  | _ :: rest => iopsOk rest

/-- every live `.def` alias names a real register (pass 2 stores only `regOfName` results) -/
def ctxRegsOk (c : Ctx) : Prop := ∀ name n, c.getDef name = some n → n < 32

theorem resolve_regsOk (c : Ctx) (hc : ctxRegsOk c) : ∀ (accs : List Acc) (args : List IOp) (r : List AArg),
    iopsOk args → resolve c accs args = some r → regsOk r := by
  intro accs args
  induction args generalizing accs with
  | nil => intro r _ h; cases accs <;> simp [resolve] at h <;> subst h <;> trivial
  | cons o os ih =>
    intro r hok h
    have hos : iopsOk os := by cases o <;> simp only [iopsOk] at hok <;> first | exact hok.2 | exact hok
    cases accs with
    | nil =>
      simp only [resolve] at h
      cases hr : resolve c [] os with
      | none => simp [hr] at h
      | some xs => simp [hr] at h; subst h; simp only [regsOk]; exact ih [] xs hos hr
    | cons a as =>
      simp only [resolve] at h
      cases h1 : resolveOne c a o with
      | none => simp [h1] at h
      | some x =>
        cases h2 : resolve c as os with
        | none => simp [h1, h2] at h
        | some xs =>
          simp [h1, h2] at h; subst h
          have hxs := ih as xs hos h2
          cases a with
          | reg =>
            simp only [resolveOne] at h1
            cases o with
            | r8 n =>
              simp [asReg] at h1; subst h1
              simp only [iopsOk] at hok
              exact ⟨hok.1, hxs⟩
            | index i => simp [asReg] at h1; subst h1; exact hxs
            | e e =>
              cases e with
              | ident name =>
                simp only [asReg] at h1
                cases hd : c.getDef name with
                | none => simp [hd] at h1; subst h1; exact hxs
                | some n => simp [hd] at h1; subst h1; exact ⟨hc name n hd, hxs⟩
              | _ => simp [asReg] at h1; subst h1; exact hxs
          | val =>
            simp only [resolveOne, asVal] at h1
            cases o with
            | e e =>
              simp only at h1
              cases he : eval c e with
              | ok v => simp [he] at h1; subst h1; exact hxs
              | err _ => simp [he] at h1; subst h1; exact hxs
              | oof => simp [he] at h1
            | _ => simp at h1; subst h1; exact hxs
          | idx =>
            simp only [resolveOne, asIdx] at h1
            cases o with
            | index i =>
              simp only at h1
              cases hi : resolveIndex c i with
              | none => simp [hi] at h1
              | some ai => simp [hi] at h1; subst h1; exact hxs
            | _ => simp at h1; subst h1; exact hxs

theorem wordsBytes_eq (ws : W) : ∀ l, wordsOf ws = some l → ∃ x, ws = some x ∧ wordsBytes x = Isa.bytes l := by
  intro l h
  cases ws with
  | none => simp [wordsOf] at h
  | some x =>
    obtain ⟨w, o⟩ := x
    cases o with
    | none =>
      simp [wordsOf] at h; subst h
      exact ⟨_, rfl, by simp [wordsBytes, Isa.bytes, leBytes]⟩
    | some w2 =>
      simp [wordsOf] at h; subst h
      refine ⟨_, rfl, ?_⟩
      simp [wordsBytes, Isa.bytes, leBytes]

/-- `process` = resolve the operands, then `mWords` -/
theorem process_eq (c : Ctx) (op : Op) (args : List IOp) (addr : Nat) (r : List AArg)
    (hres : resolve c (accessors op) args = some r) :
    process c op args addr =
      match mWords c.device.isAvr8l op r addr with
      | some ws => .ok (Isa.bytes ws)
      | none => .err := by
  have hlen := resolve_length c _ _ _ hres
  unfold process mWords
  rw [hlen]
  by_cases ha : (allowedArgs op).contains args.length = true
  · simp only [ha, Bool.not_true, Bool.false_eq_true, if_false]
    cases hi : info c.device.isAvr8l op with
    | none => simp
    | some lb =>
      obtain ⟨l, base⟩ := lb
      simp only [hres]
      cases he : encodeR c.device.isAvr8l op r addr base with
      | none => simp [wordsOf]
      | some x =>
        obtain ⟨w, o⟩ := x
        cases o <;> simp [wordsOf, wordsBytes, Isa.bytes, leBytes] <;> omega
  · simp only [ha, Bool.not_false, if_true]
    cases hi : info c.device.isAvr8l op <;> simp

end Avra.Lemmas
