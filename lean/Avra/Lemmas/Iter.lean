/-
  Helper lemmas: the line loop `parseIterWith` does not depend on its iteration bound once the
  bound exceeds the number of remaining lines; canonical form `runFrom` and its one-step unfolding.
-/
import Avra.Model.Parse
namespace Avra.Lemmas.Iter
open Avra Avra.Model

theorem skipCond_shrinks (all : Bool) : ∀ (ls : List (Nat × Str)) (depth : Nat) (l : Nat × Str) (r : Bool)
    (rest : List (Nat × Str)) (o : Bool),
    skipCond all depth ls = (some l, r, rest, o) → rest.length < ls.length := by
  intro ls
  induction ls with
  | nil => intro depth l r rest o h; simp [skipCond] at h
  | cons x xs ih =>
    intro depth l r rest o h
    obtain ⟨num, t⟩ := x
    simp only [skipCond] at h
    have step : ∀ d, skipCond all d xs = (some l, r, rest, o) → rest.length < (xs.length + 1) :=
      fun d hd => Nat.lt_succ_of_lt (ih d l r rest o hd)
    simp only [List.length_cons]
    split at h
    · rename_i d _ _
      split at h
      · exact step _ h
      · split at h
        · split at h
          · split at h
            · exact step _ h
            · split at h
              · simp only [Prod.mk.injEq] at h; obtain ⟨_, _, h3, _⟩ := h; subst h3; omega
              · split at h
                · simp at h
                · simp only [Prod.mk.injEq] at h; obtain ⟨_, _, h3, _⟩ := h; subst h3; simp only [List.length_cons]; omega
          · split at h
            · exact step _ h
            · exact step _ h
        · exact step _ h
    · simp at h
    · exact step _ h

theorem skipMacro_shrinks : ∀ (ls acc : List (Nat × Str)) (body : List (Nat × Str)) (l : Nat × Str)
    (rest : List (Nat × Str)) (o : Bool),
    skipMacro acc ls = (body, some l, rest, o) → rest.length < ls.length := by
  intro ls
  induction ls with
  | nil => intro acc body l rest o h; simp [skipMacro] at h
  | cons x xs ih =>
    intro acc body l rest o h
    obtain ⟨num, t⟩ := x
    simp only [skipMacro] at h
    simp only [List.length_cons]
    split at h
    · split at h
      · split at h
        · simp at h
        · simp only [Prod.mk.injEq] at h; obtain ⟨_, _, h3, _⟩ := h; subst h3; simp only [List.length_cons]; omega
      · exact Nat.lt_succ_of_lt (ih _ _ _ _ _ h)
    · simp at h
    · exact Nat.lt_succ_of_lt (ih _ _ _ _ _ h)

theorem skipStep_shrinks (st : PState) (ni : NextItem) (ls : List (Nat × Str)) (st' : PState)
    (l : Nat × Str) (r : Bool) (rest : List (Nat × Str)) (o : Bool)
    (h : skipStep st ni ls = (st', some l, r, rest, o)) : rest.length < ls.length := by
  cases ni <;> simp only [skipStep] at h
  · cases ls with
    | nil => simp at h
    | cons x xs => simp only [Prod.mk.injEq] at h; obtain ⟨_, _, _, h4, _⟩ := h; subst h4; simp
  · cases hs : skipCond false 0 ls with
    | mk nx t =>
      obtain ⟨re, rest', o'⟩ := t
      rw [hs] at h; simp only [Prod.mk.injEq] at h
      obtain ⟨_, h2, h3, h4, h5⟩ := h
      subst h2 h3 h4 h5
      exact skipCond_shrinks false ls 0 l _ _ _ hs
  · cases hs : skipCond true 0 ls with
    | mk nx t =>
      obtain ⟨re, rest', o'⟩ := t
      rw [hs] at h; simp only [Prod.mk.injEq] at h
      obtain ⟨_, h2, h3, h4, h5⟩ := h
      subst h2 h3 h4 h5
      exact skipCond_shrinks true ls 0 l _ _ _ hs
  · cases hs : skipMacro [] ls with
    | mk body t =>
      obtain ⟨nx, rest', o'⟩ := t
      rw [hs] at h; simp only [Prod.mk.injEq] at h
      obtain ⟨_, h2, _, h4, h5⟩ := h
      subst h2 h4 h5
      exact skipMacro_shrinks ls [] _ l _ _ hs
  · simp at h

/-- the iteration bound is irrelevant once it exceeds the number of remaining lines -/
theorem fuel_irrelevant (inc : IncludeFn) (cur : Str) : ∀ (lf lf' : Nat) (incs : List Str) (st : PState)
    (ni : NextItem) (ls : List (Nat × Str)), ls.length < lf → ls.length < lf' →
    parseIterWith inc cur lf incs st ni ls = parseIterWith inc cur lf' incs st ni ls := by
  intro lf
  induction lf with
  | zero => intro lf' incs st ni ls h; omega
  | succ lf ih =>
    intro lf' incs st ni ls h h'
    cases lf' with
    | zero => omega
    | succ lf' =>
      simp only [parseIterWith]
      cases hs : skipStep st ni ls with
      | mk st1 t =>
        obtain ⟨nx, re, rest, o⟩ := t
        cases o with
        | true => rfl
        | false =>
          cases nx with
          | none => rfl
          | some line =>
            obtain ⟨idx, text⟩ := line
            simp only
            have hlt := skipStep_shrinks st ni ls st1 (idx, text) re rest false hs
            cases lineStep inc cur incs st1 idx text re with
            | ok v =>
              obtain ⟨st', incs', ni'⟩ := v
              exact ih lf' incs' st' ni' rest (by omega) (by omega)
            | error e => rfl
            | panic p => rfl
            | oof => rfl

/-- canonical run: bound = number of remaining lines + 1 -/
def runFrom (inc : IncludeFn) (cur : Str) (s : PState × List Str) (ni : NextItem)
    (ls : List (Nat × Str)) : Out (PState × List Str) :=
  parseIterWith inc cur (ls.length + 1) s.2 s.1 ni ls

theorem run_eq (inc : IncludeFn) (cur : Str) (lf : Nat) (incs : List Str) (st : PState) (ni : NextItem)
    (ls : List (Nat × Str)) (h : ls.length < lf) :
    parseIterWith inc cur lf incs st ni ls = runFrom inc cur (st, incs) ni ls :=
  fuel_irrelevant inc cur lf (ls.length + 1) incs st ni ls h (Nat.lt_succ_self _)

/-- one iteration of the loop, in canonical form -/
theorem runFrom_step (inc : IncludeFn) (cur : Str) (s : PState × List Str) (ni : NextItem)
    (ls : List (Nat × Str)) :
    runFrom inc cur s ni ls =
      match skipStep s.1 ni ls with
      | (_, _, _, _, true) => .oof
      | (st, none, _, _, false) => .ok (st, s.2)
      | (st, some (idx, text), redelivered, rest, false) =>
        match lineStep inc cur s.2 st idx text redelivered with
        | .ok (st', incs', ni') => runFrom inc cur (st', incs') ni' rest
        | .error e => .error e
        | .panic p => .panic p
        | .oof => .oof := by
  conv => lhs; unfold runFrom; simp only [parseIterWith]
  cases hs : skipStep s.1 ni ls with
  | mk st1 t =>
    obtain ⟨nx, re, rest, o⟩ := t
    cases o with
    | true => rfl
    | false =>
      cases nx with
      | none => rfl
      | some line =>
        obtain ⟨idx, text⟩ := line
        simp only
        have hlt := skipStep_shrinks s.1 ni ls st1 (idx, text) re rest false hs
        cases lineStep inc cur s.2 st1 idx text re with
        | ok v =>
          obtain ⟨st', incs', ni'⟩ := v
          exact run_eq inc cur _ incs' st' ni' rest (by omega)
        | error e => rfl
        | panic p => rfl
        | oof => rfl

end Avra.Lemmas.Iter
