/-
  The fuel of the expression parser (`Peg.exprFuel`) and of the operand lists (`Peg.sepList`)
  always suffices: no line makes the model's parser answer "out of fuel".

  1. what a rule leaves over is never longer than what it was given (`RL`);
  2. with `n * K` fuel every input shorter than `n` is parsed without running out (`Q`);
  3. the line rules built on `expr` inherit that.
-/
import Avra.Model.Peg
namespace Avra.Lemmas.Fuel
open Avra Avra.Peg
set_option linter.unusedSimpArgs false
set_option linter.unusedVariables false
set_option linter.constructorNameAsVariable false

/-! ### lengths -/

theorem skipSpace_len : ∀ s : Str, (skipSpace s).length ≤ s.length
  | [] => by simp [skipSpace]
  | c :: cs => by
    unfold skipSpace
    split
    · have := skipSpace_len cs; simp only [List.length_cons]; omega
    · exact Nat.le_refl _

theorem lit_len : ∀ (t s r : Str), lit t s = some r → r.length + t.length = s.length
  | [], s, r, h => by simp [lit] at h; subst h; simp
  | _ :: _, [], r, h => by simp [lit] at h
  | p :: ps, c :: cs, r, h => by
    unfold lit at h
    split at h
    · have := lit_len ps cs r h; simp only [List.length_cons]; omega
    · simp at h

theorem takeWhileP_len (p : Char → Bool) : ∀ s : Str, (takeWhileP p s).2.length ≤ s.length
  | [] => by simp [takeWhileP]
  | c :: cs => by
    unfold takeWhileP
    split
    · have := takeWhileP_len p cs; simp only [List.length_cons]; omega
    · exact Nat.le_refl _

theorem identText_len (s n r : Str) (h : identText s = some (n, r)) : r.length < s.length := by
  unfold identText at h
  split at h
  · split at h
    · simp only [Option.some.injEq, Prod.mk.injEq] at h
      obtain ⟨_, rfl⟩ := h
      have := takeWhileP_len isIdentChar ‹Str›
      simp only [List.length_cons]; omega
    · simp at h
  · simp at h

theorem constAlt_len (pre : Str) (cls : Char → Bool) (radix : Nat) (s : Str) (v : Int) (r : Str)
    (h : constAlt pre cls radix s = some (v, r)) : r.length ≤ s.length := by
  unfold constAlt at h
  split at h
  · simp at h
  · rename_i s1 hl
    have h1 := lit_len _ _ _ hl
    have h2 := takeWhileP_len cls s1
    dsimp only at h
    split at h
    · simp at h
    · split at h
      · simp only [Option.some.injEq, Prod.mk.injEq] at h
        obtain ⟨_, rfl⟩ := h
        omega
      · simp at h

theorem eConst_len (s : Str) (v : Int) (r : Str) (h : eConst s = some (v, r)) : r.length ≤ s.length := by
  unfold eConst at h
  cases h1 : constAlt ['$'] isHexDigit 16 s with
  | some x => rw [h1] at h; simp only [Option.orElse] at h; cases h; exact constAlt_len _ _ _ _ _ _ h1
  | none =>
    rw [h1] at h; simp only [Option.orElse] at h
    cases h2 : constAlt ['0', 'x'] isHexDigit 16 s with
    | some x => rw [h2] at h; simp only [Option.orElse] at h; cases h; exact constAlt_len _ _ _ _ _ _ h2
    | none =>
      rw [h2] at h; simp only [Option.orElse] at h
      cases h3 : constAlt ['0', 'b'] isBinDigit 2 s with
      | some x => rw [h3] at h; simp only [Option.orElse] at h; cases h; exact constAlt_len _ _ _ _ _ _ h3
      | none =>
        rw [h3] at h; simp only [Option.orElse] at h
        cases h4 : constAlt ['0'] isOctDigit 8 s with
        | some x => rw [h4] at h; simp only [Option.orElse] at h; cases h; exact constAlt_len _ _ _ _ _ _ h4
        | none =>
          rw [h4] at h; simp only [Option.orElse] at h
          exact constAlt_len _ _ _ _ _ _ h

theorem ch_len (s : Str) (c : Char) (r : Str) (h : ch s = some (c, r)) : r.length ≤ s.length := by
  unfold ch at h
  split at h
  · split at h
    · simp only [Option.some.injEq, Prod.mk.injEq] at h
      obtain ⟨_, rfl⟩ := h
      simp only [List.length_cons]; omega
    · simp at h
  · simp at h

/-! ### what a rule leaves over -/

/-- the six functions of the expression parser, at fuel `f`, never return more than they got -/
def RL (f : Nat) : Prop :=
  (∀ m s e r, parseInfix f m s = .ok e r → r.length ≤ s.length) ∧
  (∀ s e r, parsePrefixAtom f s = .ok e r → r.length ≤ s.length) ∧
  (∀ l s e r, tryPrefix f l s = .ok e r → r.length ≤ s.length) ∧
  (∀ s e r, parseAtom f s = .ok e r → r.length ≤ s.length) ∧
  (∀ m e0 s e r, parseLoop f m e0 s = .ok e r → r.length ≤ s.length) ∧
  (∀ m l e0 s0 s e r, s0.length ≤ s.length → tryInfix f m l e0 s0 s = .ok e r → r.length ≤ s.length)

theorem rl : ∀ f, RL f := by
  intro f
  induction f with
  | zero =>
    refine ⟨?_, ?_, ?_, ?_, ?_, ?_⟩
    · intro m s e r h; simp [parseInfix] at h
    · intro s e r h; simp [parsePrefixAtom] at h
    · intro l s e r h; simp [tryPrefix] at h
    · intro s e r h; simp [parseAtom] at h
    · intro m e0 s e r h; simp [parseLoop] at h
    · intro m l e0 s0 s e r _ h; simp [tryInfix] at h
  | succ f ih =>
    obtain ⟨hI, hPA, hTP, hA, hL, hTI⟩ := ih
    refine ⟨?_, ?_, ?_, ?_, ?_, ?_⟩
    · intro m s e r h
      simp only [parseInfix] at h
      split at h
      · rename_i e1 rest hp
        have h1 := hPA _ _ _ hp
        have h2 := hL _ _ _ _ _ h
        omega
      · simp at h
      · simp at h
    · intro s e r h
      simp only [parsePrefixAtom] at h
      exact hTP _ _ _ _ h
    · intro l s e r h
      cases l with
      | nil => simp only [tryPrefix] at h; exact hA _ _ _ h
      | cons x more =>
        obtain ⟨t, u, lv⟩ := x
        simp only [tryPrefix] at h
        split at h
        · rename_i s1 hl
          have hlen := lit_len _ _ _ hl
          split at h
          · rename_i e1 rest hp
            have h1 := hI _ _ _ _ hp
            simp only [PR.ok.injEq] at h
            obtain ⟨_, rfl⟩ := h
            have h2 : (if Gen.prefixSpace = true then skipSpace s1 else s1).length ≤ s1.length := by
              split
              · exact skipSpace_len _
              · exact Nat.le_refl _
            omega
          · exact hTP _ _ _ _ h
          · simp at h
        · exact hTP _ _ _ _ h
    · intro s e r h
      simp only [parseAtom] at h
      split at h
      · rename_i pa e1 r1 heq
        simp only [PR.ok.injEq] at h; obtain ⟨_, rfl⟩ := h
        split at heq
        · rename_i n ra hid
          have h1 := identText_len _ _ _ hid
          split at heq
          · rename_i r2 hsp
            have h2 := skipSpace_len ra
            split at heq
            · rename_i a r3 hp
              have h3 := hI _ _ _ _ hp
              have h4 := skipSpace_len r2
              split at heq
              · rename_i r4 hsp2
                simp only [PR.ok.injEq] at heq; obtain ⟨_, rfl⟩ := heq
                have h5 := skipSpace_len r3
                rw [hsp] at h2; rw [hsp2] at h5; simp only [List.length_cons] at h2 h5; omega
              · simp at heq
            · simp at heq
            · simp at heq
          · simp at heq
        · simp at heq
      · simp at h
      · split at h
        · rename_i e1 r1 heq
          simp only [PR.ok.injEq] at h; obtain ⟨_, rfl⟩ := h
          split at heq
          · rename_i ra _
            split at heq
            · rename_i a r2 hp
              have h3 := hI _ _ _ _ hp
              have h4 := skipSpace_len ra
              split at heq
              · rename_i r3 hsp2
                simp only [PR.ok.injEq] at heq; obtain ⟨_, rfl⟩ := heq
                have h5 := skipSpace_len r2
                rw [hsp2] at h5; simp only [List.length_cons] at h5 ⊢; omega
              · simp at heq
            · simp at heq
            · simp at heq
          · simp at heq
        · simp at h
        · split at h
          · rename_i v r1 hc
            simp only [PR.ok.injEq] at h; obtain ⟨_, rfl⟩ := h
            exact eConst_len _ _ _ hc
          · split at h
            · rename_i c r1 hc
              simp only [PR.ok.injEq] at h; obtain ⟨_, rfl⟩ := h
              exact ch_len _ _ _ hc
            · split at h
              · rename_i n r1 hid
                simp only [PR.ok.injEq] at h; obtain ⟨_, rfl⟩ := h
                exact Nat.le_of_lt (identText_len _ _ _ hid)
              · simp at h
    · intro m e0 s e r h
      simp only [parseLoop] at h
      exact hTI _ _ _ _ _ _ _ (Nat.le_refl _) h
    · intro m l e0 s0 s e r hs h
      cases l with
      | nil => simp only [tryInfix] at h; simp only [PR.ok.injEq] at h; obtain ⟨_, rfl⟩ := h; exact hs
      | cons x more =>
        obtain ⟨t, b, lv, rlv⟩ := x
        simp only [tryInfix] at h
        split at h
        · exact hTI _ _ _ _ _ _ _ hs h
        · split at h
          · rename_i s1 hl
            have hlen := lit_len _ _ _ hl
            have hsp := skipSpace_len s
            split at h
            · rename_i e1 rest hp
              have h1 := hI _ _ _ _ hp
              have h2 := hL _ _ _ _ _ h
              have h3 := skipSpace_len s1
              omega
            · exact hTI _ _ _ _ _ _ _ hs h
            · simp at h
          · exact hTI _ _ _ _ _ _ _ hs h

/-! ### enough fuel -/

/-- fuel per character of input: one pass over the two operator tables plus the fixed steps -/
def K : Nat := prefixOps.length + infixOps.length + 8

theorem exprFuel_eq (s : Str) : exprFuel s = (s.length + 2) * K := rfl

/-- every operator of the (regenerated) table has a non-empty text: matching one consumes input -/
theorem prefix_tokens : ∀ x ∈ prefixOps, x.1 ≠ [] := by decide
theorem infix_tokens : ∀ x ∈ infixOps, x.1 ≠ [] := by decide

/-- with `n * K` fuel, inputs shorter than `n` never run out -/
def Q (n : Nat) : Prop :=
  ∀ s : Str, s.length < n → ∀ f, n * K ≤ f →
    (∀ m, parseInfix f m s ≠ .oof) ∧ (∀ m e0, parseLoop f m e0 s ≠ .oof)

theorem atom_ok (n : Nat) (hQ : Q n) (s : Str) (hs : s.length ≤ n) (f : Nat) (hf : n * K + 1 ≤ f) :
    parseAtom f s ≠ .oof := by
  intro h
  obtain ⟨g, rfl⟩ : ∃ g, f = g + 1 := ⟨f - 1, by omega⟩
  have hg : n * K ≤ g := by omega
  simp only [parseAtom] at h
  split at h
  · simp at h
  · rename_i heq
    split at heq
    · rename_i nm ra hid
      have h1 := identText_len _ _ _ hid
      split at heq
      · rename_i r2 hsp
        have h2 := skipSpace_len ra
        rw [hsp] at h2; simp only [List.length_cons] at h2
        split at heq
        · split at heq <;> simp at heq
        · simp at heq
        · rename_i hp
          have h4 := skipSpace_len r2
          exact (hQ (skipSpace r2) (by omega) g hg).1 0 hp
      · simp at heq
    · simp at heq
  · split at h
    · simp at h
    · rename_i heq
      split at heq
      · rename_i ra _
        split at heq
        · split at heq <;> simp at heq
        · simp at heq
        · rename_i hp
          have h4 := skipSpace_len ra
          simp only [List.length_cons] at hs
          exact (hQ (skipSpace ra) (by omega) g hg).1 0 hp
      · simp at heq
    · repeat' split at h
      all_goals simp at h

theorem tryPrefix_ok (n : Nat) (hQ : Q n) (s : Str) (hs : s.length ≤ n) :
    ∀ (l : List (Str × UnOp × Nat)), (∀ x ∈ l, x.1 ≠ []) → ∀ f, n * K + l.length + 2 ≤ f → tryPrefix f l s ≠ .oof := by
  intro l
  induction l with
  | nil =>
    intro _ f hf h
    obtain ⟨g, rfl⟩ : ∃ g, f = g + 1 := ⟨f - 1, by omega⟩
    simp only [tryPrefix] at h
    exact atom_ok n hQ s hs g (by simp only [List.length_nil] at hf; omega) h
  | cons x more ih =>
    intro hne f hf h
    obtain ⟨t, u, lv⟩ := x
    obtain ⟨g, rfl⟩ : ∃ g, f = g + 1 := ⟨f - 1, by omega⟩
    simp only [List.length_cons] at hf
    have hmore : ∀ x ∈ more, x.1 ≠ [] := fun x hx => hne x (List.mem_cons_of_mem _ hx)
    have ht : t ≠ [] := hne (t, u, lv) (List.mem_cons_self ..)
    simp only [tryPrefix] at h
    split at h
    · rename_i s1 hl
      have hlen := lit_len _ _ _ hl
      have htl : 0 < t.length := List.length_pos_iff.mpr ht
      split at h
      · simp at h
      · exact ih hmore g (by omega) h
      · rename_i hp
        have h2 : (if Gen.prefixSpace = true then skipSpace s1 else s1).length ≤ s1.length := by
          split
          · exact skipSpace_len _
          · exact Nat.le_refl _
        exact (hQ _ (by omega) g (by omega)).1 lv hp
    · exact ih hmore g (by omega) h

theorem prefixAtom_ok (n : Nat) (hQ : Q n) (s : Str) (hs : s.length ≤ n) (f : Nat)
    (hf : n * K + prefixOps.length + 3 ≤ f) : parsePrefixAtom f s ≠ .oof := by
  intro h
  obtain ⟨g, rfl⟩ : ∃ g, f = g + 1 := ⟨f - 1, by omega⟩
  simp only [parsePrefixAtom] at h
  exact tryPrefix_ok n hQ s hs prefixOps prefix_tokens g (by omega) h

theorem tryInfix_ok (n : Nat) (hQ : Q n) (s : Str) (hs : s.length ≤ n) (m : Nat) (s0 : Str) :
    ∀ (l : List (Str × BinOp × Nat × Nat)), (∀ x ∈ l, x.1 ≠ []) → ∀ f, n * K + l.length + 1 ≤ f →
      ∀ e0, tryInfix f m l e0 s0 s ≠ .oof := by
  intro l
  induction l with
  | nil =>
    intro _ f hf e0 h
    obtain ⟨g, rfl⟩ : ∃ g, f = g + 1 := ⟨f - 1, by omega⟩
    simp [tryInfix] at h
  | cons x more ih =>
    intro hne f hf e0 h
    obtain ⟨t, b, lv, rlv⟩ := x
    obtain ⟨g, rfl⟩ : ∃ g, f = g + 1 := ⟨f - 1, by omega⟩
    simp only [List.length_cons] at hf
    have hmore : ∀ x ∈ more, x.1 ≠ [] := fun x hx => hne x (List.mem_cons_of_mem _ hx)
    have ht : t ≠ [] := hne (t, b, lv, rlv) (List.mem_cons_self ..)
    have htl : 0 < t.length := List.length_pos_iff.mpr ht
    simp only [tryInfix] at h
    split at h
    · exact ih hmore g (by omega) e0 h
    · split at h
      · rename_i s1 hl
        have hlen := lit_len _ _ _ hl
        have hsp := skipSpace_len s
        have hsp1 := skipSpace_len s1
        split at h
        · rename_i e1 rest hp
          have hr := (rl g).1 _ _ _ _ hp
          exact (hQ rest (by omega) g (by omega)).2 m _ h
        · exact ih hmore g (by omega) e0 h
        · rename_i hp
          exact (hQ _ (by omega) g (by omega)).1 rlv hp
      · exact ih hmore g (by omega) e0 h

theorem loop_ok (n : Nat) (hQ : Q n) (s : Str) (hs : s.length ≤ n) (f : Nat)
    (hf : n * K + infixOps.length + 2 ≤ f) (m : Nat) (e0 : Expr) : parseLoop f m e0 s ≠ .oof := by
  intro h
  obtain ⟨g, rfl⟩ : ∃ g, f = g + 1 := ⟨f - 1, by omega⟩
  simp only [parseLoop] at h
  exact tryInfix_ok n hQ s hs m s infixOps infix_tokens g (by omega) e0 h

theorem infix_ok (n : Nat) (hQ : Q n) (s : Str) (hs : s.length ≤ n) (f : Nat)
    (hf : n * K + K ≤ f) (m : Nat) : parseInfix f m s ≠ .oof := by
  intro h
  have hK : K = prefixOps.length + infixOps.length + 8 := rfl
  obtain ⟨g, rfl⟩ : ∃ g, f = g + 1 := ⟨f - 1, by omega⟩
  simp only [parseInfix] at h
  split at h
  · rename_i e1 rest hp
    have hr := (rl g).2.1 _ _ _ hp
    exact loop_ok n hQ rest (by omega) g (by omega) m e1 h
  · simp at h
  · rename_i hp
    exact prefixAtom_ok n hQ s hs g (by omega) hp

theorem q_all : ∀ n, Q n := by
  intro n
  induction n with
  | zero => intro s hs; omega
  | succ n ih =>
    intro s hs f hf
    have hK : K = prefixOps.length + infixOps.length + 8 := rfl
    have hmul : (n + 1) * K = n * K + K := Nat.succ_mul n K
    refine ⟨fun m => infix_ok n ih s (by omega) f (by omega) m, fun m e0 => loop_ok n ih s (by omega) f (by omega) m e0⟩

/-- **the expression parser never runs out of the fuel it is given** -/
theorem expr_no_oof (s : Str) : expr s ≠ .oof := by
  unfold expr
  rw [exprFuel_eq]
  have hmul : (s.length + 2) * K = (s.length + 1) * K + K := Nat.succ_mul _ K
  exact (q_all (s.length + 1) s (by omega) _ (by omega)).1 0

/-- and never returns more than it got -/
theorem expr_len (s : Str) (e : Expr) (r : Str) (h : expr s = .ok e r) : r.length ≤ s.length :=
  (rl _).1 _ _ _ _ h

/-! ### the rules built on `expr` -/

theorem reg16_len (s : Str) (v : Reg16) (r : Str) (h : reg16 s = some (v, r)) : r.length ≤ s.length := by
  unfold reg16 at h
  split at h
  · repeat' split at h
    all_goals first
      | (simp only [Option.some.injEq, Prod.mk.injEq] at h; obtain ⟨_, rfl⟩ := h; simp only [List.length_cons]; omega)
      | (simp at h; done)
  · simp at h

theorem reg8_len (s : Str) (x : Nat) (r : Str) (h : reg8 s = some (x, r)) : r.length ≤ s.length := by
  unfold reg8 at h
  repeat' split at h
  all_goals first
    | (simp at h; done)
    | (simp only [Option.map_eq_some_iff, Prod.mk.injEq] at h; obtain ⟨_, _, _, rfl⟩ := h; simp only [List.length_cons]; omega)
    | (simp only [Option.map_eq_some_iff, Prod.mk.injEq] at h; obtain ⟨_, _, _, rfl⟩ := h; simp)

theorem indexOps_no_oof (s : Str) : indexOps s ≠ .oof := by
  intro h
  unfold indexOps at h
  dsimp only at h
  repeat' split at h
  all_goals first
    | (simp at h; done)
    | (exact expr_no_oof _ ‹_›)

theorem indexOps_len (s : Str) (v : IndexOps) (r : Str) (h : indexOps s = .ok v r) : r.length ≤ s.length := by
  unfold indexOps at h
  dsimp only at h
  split at h
  · rename_i v1 r1 ha
    simp only [PO.ok.injEq] at h; obtain ⟨_, rfl⟩ := h
    split at ha
    · rename_i r0
      simp only [Option.map_eq_some_iff] at ha
      obtain ⟨⟨x, rest⟩, hx, hy⟩ := ha
      simp only [Option.some.injEq, Prod.mk.injEq] at hy
      obtain ⟨_, rfl⟩ := hy
      have := reg16_len _ _ _ hx
      simp only [List.length_cons]; omega
    · simp at ha
  · split at h
    · simp at h
    · rename_i x r1 hx
      have h1 := reg16_len _ _ _ hx
      have h2 := skipSpace_len r1
      have alt : ∀ v r, (match r1 with
          | '+' :: r' => PO.ok (IndexOps.postInc x) r'
          | c :: _ => if isIdentChar c = true then PO.fail else PO.ok (IndexOps.none x) r1
          | [] => PO.ok (IndexOps.none x) r1) = PO.ok v r → r.length ≤ s.length := by
        intro v r ha
        split at ha
        · simp only [PO.ok.injEq] at ha; obtain ⟨_, rfl⟩ := ha; simp only [List.length_cons] at h1; omega
        · split at ha
          · simp at ha
          · simp only [PO.ok.injEq] at ha; obtain ⟨_, rfl⟩ := ha; exact h1
        · simp only [PO.ok.injEq] at ha; obtain ⟨_, rfl⟩ := ha; exact h1
      split at h
      · rename_i r2 hsp
        rw [hsp] at h2; simp only [List.length_cons] at h2
        split at h
        · rename_i e rest hp
          simp only [PO.ok.injEq] at h; obtain ⟨_, rfl⟩ := h
          have h3 := expr_len _ _ _ hp
          have h4 := skipSpace_len r2
          omega
        · simp at h
        · exact alt _ _ h
      · exact alt _ _ h

theorem instructionOps_no_oof (s : Str) : instructionOps s ≠ .oof := by
  intro h
  unfold instructionOps at h
  repeat' split at h
  all_goals first
    | (simp at h; done)
    | (exact indexOps_no_oof _ ‹_›)
    | (exact expr_no_oof _ ‹_›)

theorem instructionOps_len (s : Str) (v : IOp) (r : Str) (h : instructionOps s = .ok v r) : r.length ≤ s.length := by
  unfold instructionOps at h
  repeat' split at h
  all_goals first
    | (simp at h; done)
    | (simp only [PO.ok.injEq] at h; obtain ⟨_, rfl⟩ := h; exact indexOps_len _ _ _ ‹_›)
    | (simp only [PO.ok.injEq] at h; obtain ⟨_, rfl⟩ := h; exact reg8_len _ _ _ ‹_›)
    | (simp only [PO.ok.injEq] at h; obtain ⟨_, rfl⟩ := h; exact expr_len _ _ _ ‹_›)

theorem string_len (s t r : Str) (h : Peg.string s = some (t, r)) : r.length ≤ s.length := by
  unfold Peg.string at h
  split at h
  · rename_i cs
    dsimp only at h
    split at h
    · rename_i rest hr
      simp only [Option.some.injEq, Prod.mk.injEq] at h; obtain ⟨_, rfl⟩ := h
      have := takeWhileP_len notStrEnd cs
      rw [hr] at this; simp only [List.length_cons] at this ⊢; omega
    · simp at h
  · simp at h

theorem directiveOp_no_oof (s : Str) : directiveOp s ≠ .oof := by
  intro h
  unfold directiveOp at h
  repeat' split at h
  all_goals first
    | (simp at h; done)
    | (exact expr_no_oof _ ‹_›)

theorem directiveOp_len (s : Str) (v : Operand) (r : Str) (h : directiveOp s = .ok v r) : r.length ≤ s.length := by
  unfold directiveOp at h
  repeat' split at h
  all_goals first
    | (simp at h; done)
    | (simp only [PO.ok.injEq] at h; obtain ⟨_, rfl⟩ := h; exact expr_len _ _ _ ‹_›)
    | (simp only [PO.ok.injEq] at h; obtain ⟨_, rfl⟩ := h; exact string_len _ _ _ ‹_›)

theorem delimiter_len (s s1 : Str) (h : delimiter s = some s1) : s1.length < s.length := by
  unfold delimiter at h
  split at h
  · rename_i r hsp
    simp only [Option.some.injEq] at h; subst h
    have h1 := skipSpace_len s
    have h2 := skipSpace_len r
    rw [hsp] at h1; simp only [List.length_cons] at h1; omega
  · simp at h

/-- the list tail: every further element costs a comma, so `length + 1` rounds are enough -/
theorem sepTail_no_oof {α : Type} (p : Str → PO α) (hp1 : ∀ s, p s ≠ .oof)
    (hp2 : ∀ s v r, p s = .ok v r → r.length ≤ s.length) :
    ∀ (f : Nat) (acc : List α) (s : Str), s.length < f → sepTail p f acc s ≠ .oof := by
  intro f
  induction f with
  | zero => intro acc s hs; omega
  | succ f ih =>
    intro acc s hs h
    simp only [sepTail] at h
    split at h
    · simp at h
    · rename_i s1 hd
      have h1 := delimiter_len _ _ hd
      split at h
      · rename_i v r hp
        have h2 := hp2 _ _ _ hp
        exact ih _ r (by omega) h
      · rename_i hp; exact hp1 _ hp
      · simp at h

theorem sepList_no_oof {α : Type} (p : Str → PO α) (hp1 : ∀ s, p s ≠ .oof)
    (hp2 : ∀ s v r, p s = .ok v r → r.length ≤ s.length) (s : Str) : sepList p s ≠ .oof := by
  intro h
  unfold sepList at h
  split at h
  · rename_i v r hp
    have := hp2 _ _ _ hp
    exact sepTail_no_oof p hp1 hp2 _ _ r (by omega) h
  · rename_i hp; exact hp1 _ hp
  · simp at h

theorem opList_no_oof (s : Str) : opList s ≠ .oof :=
  sepList_no_oof _ instructionOps_no_oof instructionOps_len s

theorem spacedOps_no_oof : ∀ (n : Nat) (s : Str), spacedOps n s ≠ .oof
  | 0, s => by simp [spacedOps]
  | 1, s => by
    intro h
    simp only [spacedOps] at h
    split at h
    · simp at h
    · rename_i hp; exact directiveOp_no_oof _ hp
    · simp at h
  | n + 2, s => by
    intro h
    simp only [spacedOps] at h
    split at h
    · split at h
      · split at h
        · simp at h
        · rename_i hp; exact spacedOps_no_oof (n + 1) _ hp
        · simp at h
      · simp at h
    · rename_i hp; exact directiveOp_no_oof _ hp
    · simp at h

theorem tryN_no_oof (s : Str) : ∀ l : List Nat, directiveOps.tryN s l ≠ .oof := by
  intro l
  induction l with
  | nil =>
    intro h
    simp only [directiveOps.tryN] at h
    split at h
    · simp at h
    · rename_i hp; exact sepList_no_oof _ directiveOp_no_oof directiveOp_len s hp
    · simp at h
  | cons n ns ih =>
    intro h
    simp only [directiveOps.tryN] at h
    split at h
    · simp at h
    · rename_i hp; exact spacedOps_no_oof _ _ hp
    · exact ih h

theorem directiveOps_no_oof (s : Str) : directiveOps s ≠ .oof := by
  intro h
  unfold directiveOps at h
  dsimp only at h
  split at h
  · simp at h
  · rename_i heq
    repeat' split at heq
    all_goals first
      | (simp at heq; done)
      | (exact expr_no_oof _ ‹_›)
  · exact tryN_no_oof s _ h

/-- **no line makes the parser run out of fuel** -/
theorem line_no_oof (s : Str) : line s ≠ .oof := by
  intro h
  unfold line at h
  dsimp only at h
  split at h
  · split at h <;> simp at h
  · rename_i heq
    repeat' split at heq
    all_goals first
      | (simp at heq; done)
      | (exact directiveOps_no_oof _ ‹_›)
  · split at h
    · split at h <;> simp at h
    · rename_i heq
      repeat' split at heq
      all_goals first
        | (simp at heq; done)
        | (exact opList_no_oof _ ‹_›)
    · repeat' split at h
      all_goals simp at h

end Avra.Lemmas.Fuel
