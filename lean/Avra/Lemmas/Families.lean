/-
  Helper lemmas: for every arm of the encoder model, and for ALL operand lists (any count, any
  kinds, any i64 values), the model's words are the ISA encoding of what the independent
  legality spec says the operands denote — given only the finite bit-packing identity of that arm
  (`hpack`, discharged by kernel evaluation of the whole finite table in `Avra.Props.Enc*`).
-/
import Avra.Lemmas.Fields
namespace Avra.Lemmas
open Avra Avra.Model Avra.Isa

/-- closes the branch "operands do not have the arm's shape": both sides are `none` -/
macro "wrong_shape" : tactic =>
  `(tactic| (split <;> first | (exfalso; rename_i hne _ _ ; first | exact hne _ _ rfl | exact hne _ rfl | exact hne rfl) | simp [wordsOf]))

theorem fam_rr (base : Nat) (o : RROp)
    (hpack : ∀ d r, d < 32 → r < 32 → packRR base d r = word (rrPat o) [(fld!"d", d), (fld!"r", r)])
    (args : List AArg) (hr : regsOk args) :
    wordsOf (eRR base args) = (sRR o args).map encode := by
  unfold eRR sRR
  split
  · rename_i d r
    simp only [regsOk] at hr
    simp [reg32, hr.1, hr.2.1, wordsOf, encode, hpack d r hr.1 hr.2.1]
  · rename_i hne
    split
    · rename_i d r; exact absurd rfl (hne d r)
    · simp [wordsOf]

theorem fam_same (base : Nat) (o : RROp)
    (hpack : ∀ d r, d < 32 → r < 32 → packRR base d r = word (rrPat o) [(fld!"d", d), (fld!"r", r)])
    (args : List AArg) (hr : regsOk args) :
    wordsOf (eSame base args) = (sRRsame o args).map encode := by
  unfold eSame sRRsame
  split
  · rename_i d
    simp only [regsOk] at hr
    simp [reg32, hr.1, wordsOf, encode, hpack d d hr.1 hr.1]
  · rename_i hne
    split
    · rename_i d; exact absurd rfl (hne d)
    · simp [wordsOf]

theorem fam_one (base : Nat) (o : OneOp)
    (hpack : ∀ d, d < 32 → packOne base d = word (onePat o) [(fld!"d", d)])
    (args : List AArg) (hr : regsOk args) :
    wordsOf (eOne base args) = (sOne o args).map encode := by
  unfold eOne sOne
  split
  · rename_i d
    simp only [regsOk] at hr
    simp [reg32, hr.1, wordsOf, encode, hpack d hr.1]
  · rename_i hne
    split
    · rename_i d; exact absurd rfl (hne d)
    · simp [wordsOf]

theorem fam_imm (base : Nat) (o : ImmOp) (cbr : Bool) (f : Nat → Nat)
    (hpack : ∀ d k, 16 ≤ d → d < 32 → k < 256 →
      packImm base d (if cbr then 0xff - k else k) = word (immPat o) [(fld!"d", d - 16), (fld!"K", f k)])
    (args : List AArg) (_hr : regsOk args) :
    wordsOf (eImm base cbr args) = (sImm o f args).map encode := by
  unfold eImm sImm
  split
  · rename_i d v
    rw [fByte_eq_imm8]
    by_cases h16 : d < 16
    · have : ¬ (16 ≤ d ∧ d < 32) := by omega
      simp [h16, this, wordsOf]
    · by_cases h32 : d < 32
      · have h1 : 16 ≤ d ∧ d < 32 := by omega
        simp only [h16, h1, if_false, if_true, and_self]
        cases h : imm8 v with
        | none => simp [wordsOf]
        | some k => simp [wordsOf, encode, hpack d k h1.1 h1.2 (imm8_lt v k h)]
      · simp only [regsOk] at _hr; omega
  · rename_i hne
    split
    · rename_i d v; exact absurd rfl (hne d v)
    · simp [wordsOf]

theorem fam_ser (base : Nat)
    (hpack : ∀ d, 16 ≤ d → d < 32 → packSer base d = word (immPat .ldi) [(fld!"d", d - 16), (fld!"K", 255)])
    (args : List AArg) (hr : regsOk args) :
    wordsOf (eSer base args) = (sSer args).map encode := by
  unfold eSer sSer
  split
  · rename_i d
    simp only [regsOk] at hr
    by_cases h16 : d < 16
    · have : ¬ (16 ≤ d ∧ d < 32) := by omega
      simp [h16, this, wordsOf]
    · have h1 : 16 ≤ d ∧ d < 32 := by omega
      simp [h16, h1, wordsOf, encode, hpack d h1.1 h1.2]
  · rename_i hne
    split
    · rename_i d; exact absurd rfl (hne d)
    · simp [wordsOf]

theorem fam_adiw (base : Nat) (sub : Bool)
    (hpack : ∀ d k, (d = 24 ∨ d = 26 ∨ d = 28 ∨ d = 30) → k < 64 →
      packAdiw base d k = word (if sub then pat!"1001 0111 KKdd KKKK" else pat!"1001 0110 KKdd KKKK")
        [(fld!"d", (d - 24) / 2), (fld!"K", k)])
    (args : List AArg) (_hr : regsOk args) :
    wordsOf (eAdiw base args) = (sAdiw sub args).map encode := by
  unfold eAdiw sAdiw
  split
  · rename_i d v
    rw [fSmall_spec 63 (by omega)]
    by_cases hd : (d = 24 ∨ d = 26 ∨ d = 28 ∨ d = 30)
    · have hb : (!(d == 24 || d == 26 || d == 28 || d == 30)) = false := by
        rcases hd with h | h | h | h <;> simp [h]
      simp only [hb, Bool.false_eq_true, if_false]
      by_cases hv : inRange 0 63 v = true
      · have hk : v.toNat < 64 := by unfold inRange at hv; simp at hv; omega
        simp [hv, hd, wordsOf, encode, hpack d v.toNat hd hk]
      · simp [hv, wordsOf]
    · have hb : (!(d == 24 || d == 26 || d == 28 || d == 30)) = true := by
        simp only [not_or] at hd
        simp [hd.1, hd.2.1, hd.2.2.1, hd.2.2.2]
      simp [hb, hd, wordsOf]
  · rename_i hne
    split
    · rename_i d v; exact absurd rfl (hne d v)
    · simp [wordsOf]

theorem fam_muls (base : Nat)
    (hpack : ∀ d r, 16 ≤ d → d < 32 → 16 ≤ r → r < 32 →
      packMuls base d r = word (pat!"0000 0010 dddd rrrr") [(fld!"d", d - 16), (fld!"r", r - 16)])
    (args : List AArg) (hr : regsOk args) :
    wordsOf (eMuls base args) = (sMuls args).map encode := by
  unfold eMuls sMuls
  split
  · rename_i d r
    simp only [regsOk] at hr
    by_cases h : d < 16 ∨ r < 16
    · have : ¬ (16 ≤ d ∧ d < 32 ∧ 16 ≤ r ∧ r < 32) := by omega
      simp [h, this, wordsOf]
    · have h1 : (16 ≤ d ∧ d < 32 ∧ 16 ≤ r ∧ r < 32) := by omega
      simp [h, h1, wordsOf, encode, hpack d r h1.1 h1.2.1 h1.2.2.1 h1.2.2.2]
  · rename_i hne
    split
    · rename_i d r; exact absurd rfl (hne d r)
    · simp [wordsOf]

theorem fam_mulf (base : Nat) (o : MulfOp)
    (hpack : ∀ d r, 16 ≤ d → d < 24 → 16 ≤ r → r < 24 →
      packMulf base d r = word (mulfPat o) [(fld!"d", d - 16), (fld!"r", r - 16)])
    (args : List AArg) (_hr : regsOk args) :
    wordsOf (eMulf base args) = (sMulf o args).map encode := by
  unfold eMulf sMulf
  split
  · rename_i d r
    by_cases h : d < 16 ∨ d > 23 ∨ r < 16 ∨ r > 23
    · have : ¬ (16 ≤ d ∧ d < 24 ∧ 16 ≤ r ∧ r < 24) := by omega
      simp [h, this, wordsOf]
    · have h1 : (16 ≤ d ∧ d < 24 ∧ 16 ≤ r ∧ r < 24) := by omega
      simp [h, h1, wordsOf, encode, hpack d r h1.1 h1.2.1 h1.2.2.1 h1.2.2.2]
  · rename_i hne
    split
    · rename_i d r; exact absurd rfl (hne d r)
    · simp [wordsOf]

theorem fam_movw (base : Nat)
    (hpack : ∀ d r, d < 32 → r < 32 → d % 2 = 0 → r % 2 = 0 →
      packMovw base d r = word (pat!"0000 0001 dddd rrrr") [(fld!"d", d / 2), (fld!"r", r / 2)])
    (args : List AArg) (hr : regsOk args) :
    wordsOf (eMovw base args) = (sMovw args).map encode := by
  unfold eMovw sMovw
  split
  · rename_i d r
    simp only [regsOk] at hr
    by_cases h : d % 2 ≠ 0 ∨ r % 2 ≠ 0
    · have : ¬ (d % 2 = 0 ∧ r % 2 = 0 ∧ d < 32 ∧ r < 32) := by omega
      simp only [if_pos h, if_neg this, wordsOf, Option.map_none]
    · have h1 : (d % 2 = 0 ∧ r % 2 = 0 ∧ d < 32 ∧ r < 32) := by omega
      simp only [if_neg h, if_pos h1, wordsOf, Option.map_some, encode, hpack d r hr.1 hr.2.1 h1.1 h1.2.1]
  · rename_i hne
    split
    · rename_i d r; exact absurd rfl (hne d r)
    · simp [wordsOf]

theorem fam_rel (base addr : Nat) (call : Bool)
    (hpack : ∀ f, f < 4096 →
      base ||| f = word (if call then pat!"1101 kkkk kkkk kkkk" else pat!"1100 kkkk kkkk kkkk") [(fld!"k", f)])
    (args : List AArg) (_hr : regsOk args) :
    wordsOf (eRel base addr args) = (sRel call addr args).map encode := by
  unfold eRel sRel
  split
  · rename_i t
    rw [fRel12_spec]
    by_cases h : inRange (-2048) 2047 (relOf addr t) = true
    · simp [h, wordsOf, encode, hpack _ (twos12_lt (relOf addr t))]
    · simp [h, wordsOf]
  · rename_i hne
    split
    · rename_i t; exact absurd rfl (hne t)
    · simp [wordsOf]

theorem fam_brb (base addr : Nat) (clear : Bool) (num : Nat)
    (hpack : ∀ s f, s < 8 → f < 128 →
      packBr base s num f = word (if clear then pat!"1111 01kk kkkk ksss" else pat!"1111 00kk kkkk ksss")
        [(fld!"s", s), (fld!"k", f)])
    (args : List AArg) (_hr : regsOk args) :
    wordsOf (eBrb base addr (some num) args) = (sBrb clear addr args).map encode := by
  unfold eBrb sBrb
  split
  · rename_i s t
    rw [fRel7_spec, fBit_spec]
    by_cases hs : inRange 0 7 s = true
    · by_cases h : inRange (-64) 63 (relOf addr t) = true
      · have hk : s.toNat < 8 := by unfold inRange at hs; simp at hs; omega
        simp [hs, h, wordsOf, encode, hpack _ _ hk (twos7_lt (relOf addr t))]
      · simp [hs, h, wordsOf]
    · simp [hs, wordsOf]
  · rename_i hne
    split
    · rename_i s t; exact absurd rfl (hne s t)
    · simp [wordsOf]

theorem fam_br (base addr : Nat) (b : BranchT) (clear : Bool) (s num : Nat)
    (hb : branchFlag b = some (clear, s))
    (hpack : ∀ f, f < 128 →
      packBr base 0 num f = word (if clear then pat!"1111 01kk kkkk ksss" else pat!"1111 00kk kkkk ksss")
        [(fld!"s", s), (fld!"k", f)])
    (args : List AArg) (_hr : regsOk args) :
    wordsOf (eBr base addr (some num) args) = (sBr b addr args).map encode := by
  unfold eBr sBr
  split
  · rename_i t
    rw [fRel7_spec, hb]
    by_cases h : inRange (-64) 63 (relOf addr t) = true
    · simp [h, wordsOf, encode, hpack _ (twos7_lt (relOf addr t))]
    · simp [h, wordsOf]
  · rename_i hne
    split
    · rename_i t; exact absurd rfl (hne t)
    · simp [wordsOf]

/-- the first word of jmp/call in terms of bits 13..21 of the address (m = k / 8192 % 512) -/
theorem packJmp1_eq (base k : Nat) :
    packJmp1 base k = base ||| ((k / 8192 % 512) &&& 0x1f0) ||| ((k / 8192 % 512 / 8 % 2) &&& 1) := by
  unfold packJmp1
  rw [Nat.shiftRight_eq_div_pow, Nat.shiftRight_eq_div_pow, Nat.and_div_two_pow, Nat.and_div_two_pow]
  have a : (0x3e0000 : Nat) / 2 ^ 13 = 0x1f0 := by decide
  have b : (0x010000 : Nat) / 2 ^ 16 = 1 := by decide
  have c : ∀ x : Nat, x &&& 0x1f0 = (x % 512) &&& 0x1f0 := by
    intro x
    have h := Nat.and_mod_two_pow (a := x) (b := 0x1f0) (n := 9)
    have lt := Nat.and_lt_two_pow x (y := 0x1f0) (n := 9) (by decide)
    rw [Nat.mod_eq_of_lt lt] at h
    simpa using h
  have d : ∀ x : Nat, x &&& 1 = (x % 2) &&& 1 := by
    intro x
    have h := Nat.and_mod_two_pow (a := x) (b := 1) (n := 1)
    have lt := Nat.and_lt_two_pow x (y := 1) (n := 1) (by decide)
    rw [Nat.mod_eq_of_lt lt] at h
    simpa using h
  rw [a, b, c (k / 2 ^ 13), d (k / 2 ^ 16)]
  have p13 : (2 : Nat) ^ 13 = 8192 := by decide
  have p16 : (2 : Nat) ^ 16 = 65536 := by decide
  rw [p13, p16]
  have e2 : k / 65536 % 2 = k / 8192 % 512 / 8 % 2 := by omega
  rw [e2]

theorem fam_abs (base : Nat) (call : Bool)
    (hpack : ∀ m, m < 512 →
      base ||| (m &&& 0x1f0) ||| ((m / 8 % 2) &&& 1) =
        word (if call then pat!"1001 010k kkkk 111k" else pat!"1001 010k kkkk 110k") [(fld!"k", m / 8)])
    (args : List AArg) (_hr : regsOk args) :
    wordsOf (eAbs base args) = (sAbs call args).map encode := by
  unfold eAbs sAbs
  split
  · rename_i t
    by_cases h : t < 0 ∨ t > 4194303
    · have : inRange 0 4194303 t = false := by unfold inRange; simp; omega
      simp [h, this, wordsOf]
    · have hr : inRange 0 4194303 t = true := by unfold inRange; simp; omega
      have hk : t.toNat < 4194304 := by omega
      have hm : t.toNat / 8192 % 512 < 512 := by omega
      have e1 : t.toNat / 8192 % 512 / 8 = t.toNat / 65536 := by omega
      have e2 : t.toNat &&& 0xffff = t.toNat % 65536 := by
        have : (0xffff : Nat) = 2 ^ 16 - 1 := by decide
        rw [this, Nat.and_two_pow_sub_one_eq_mod]
      have hp := hpack _ hm
      rw [e1] at hp
      simp only [h, hr, if_false, if_true, wordsOf, Option.map_some, encode, packJmp1_eq, e1, e2, hp]
  · rename_i hne
    split
    · rename_i t; exact absurd rfl (hne t)
    · simp [wordsOf]

end Avra.Lemmas
