/-
  Helper lemmas for C05: the model's 64-bit operations (through `BitVec 64`, mirroring Rust's
  i64 operators) against the spec's textbook two's-complement definitions.
-/
import Avra.Model.Eval
import Avra.Spec.Eval
namespace Avra.Lemmas
open Avra Avra.Model Avra.Spec

theorem inI64_iff (v : Int) : inI64 v = true ↔ (-9223372036854775808 ≤ v ∧ v ≤ 9223372036854775807) := by
  unfold inI64 i64Min i64Max; simp

theorem fits_eq_inI64 (v : Int) : fits v = inI64 v := by
  unfold fits inI64 i64Min i64Max two63
  by_cases h : -9223372036854775808 ≤ v <;> by_cases h2 : v ≤ 9223372036854775807 <;> simp [h, h2] <;> omega

theorem bv_toNat (a : Int) : (bv a).toNat = u64 a := by
  unfold bv u64 two64
  rw [BitVec.toNat_ofInt]

theorem bmod_s64 (n : Nat) (h : n < 18446744073709551616) : Int.bmod (n : Int) (2 ^ 64) = s64 n := by
  unfold s64 two64
  rw [Int.bmod_def]
  have e : ((2 : Nat) ^ 64 : Nat) = 18446744073709551616 := by decide
  simp only [e]
  split <;> split <;> omega

theorem s64_range (n : Nat) (h : n < 18446744073709551616) : inI64 (s64 n) = true := by
  rw [inI64_iff]; unfold s64 two64
  by_cases hn : n < 9223372036854775808 <;> simp [hn] <;> omega

theorem u64_lt (a : Int) : u64 a < 18446744073709551616 := by
  unfold u64 two64; omega

theorem i64And_spec (a b : Int) : i64And a b = s64 (u64 a &&& u64 b) := by
  unfold i64And
  rw [BitVec.toInt_and, bv_toNat, bv_toNat]
  have := Nat.and_lt_two_pow (u64 a) (y := u64 b) (n := 64) (by have := u64_lt b; simpa using this)
  exact bmod_s64 _ (by simpa using this)

theorem i64Or_spec (a b : Int) : i64Or a b = s64 (u64 a ||| u64 b) := by
  unfold i64Or
  rw [BitVec.toInt_or, bv_toNat, bv_toNat]
  have := Nat.or_lt_two_pow (x := u64 a) (y := u64 b) (n := 64) (by have := u64_lt a; simpa using this)
    (by have := u64_lt b; simpa using this)
  exact bmod_s64 _ (by simpa using this)

theorem i64Xor_spec (a b : Int) : i64Xor a b = s64 (u64 a ^^^ u64 b) := by
  unfold i64Xor
  rw [BitVec.toInt_xor, bv_toNat, bv_toNat]
  have := Nat.xor_lt_two_pow (x := u64 a) (y := u64 b) (n := 64) (by have := u64_lt a; simpa using this)
    (by have := u64_lt b; simpa using this)
  exact bmod_s64 _ (by simpa using this)

theorem i64Not_spec (a : Int) (h : inI64 a = true) : i64Not a = -a - 1 := by
  rw [inI64_iff] at h
  unfold i64Not
  rw [BitVec.toInt_not, bv_toNat, Int.bmod_def]
  have e : ((2 : Int) ^ 64) = 18446744073709551616 := by decide
  simp only [e]
  unfold u64 two64
  by_cases hn : a < 0
  · have : (a % ((18446744073709551616 : Nat) : Int)).toNat = (a + 18446744073709551616).toNat := by omega
    rw [this]
    omega
  · have : (a % ((18446744073709551616 : Nat) : Int)).toNat = a.toNat := by omega
    rw [this]
    omega

theorem i64Shl_spec (a : Int) (n : Nat) : i64Shl a n = s64 (u64 a * 2 ^ n % two64) := by
  unfold i64Shl
  rw [BitVec.toInt_shiftLeft, bv_toNat, Int.bmod_def]
  unfold s64 two64
  have e : ((2 : Nat) ^ 64 : Nat) = 18446744073709551616 := by decide
  simp only [e, Nat.shiftLeft_eq]
  generalize u64 a * 2 ^ n = y
  split <;> split <;> omega

theorem i64Shr_spec (a : Int) (n : Nat) (h : inI64 a = true) : i64Shr a n = a / 2 ^ n := by
  rw [inI64_iff] at h
  unfold i64Shr bv
  rw [BitVec.toInt_sshiftRight, BitVec.toInt_ofInt_eq_self (by decide) (by simp; omega) (by simp; omega),
    Int.shiftRight_eq_div_pow]
  norm_cast

theorem shr_range (a : Int) (n : Nat) (h : inI64 a = true) : inI64 (a / 2 ^ n) = true := by
  rw [inI64_iff] at *
  have hd : (0 : Int) < 2 ^ n := Int.pow_pos (by decide)
  generalize (2 : Int) ^ n = d at *
  constructor
  · rw [Int.le_ediv_iff_mul_le hd]; omega
  · have : a / d < 9223372036854775808 := by rw [Int.ediv_lt_iff_lt_mul hd]; omega
    omega

end Avra.Lemmas
