/-
  Helper lemmas, continued: the data-transfer, I/O, bit and operand-less arms.
-/
import Avra.Lemmas.Families
namespace Avra.Lemmas
open Avra Avra.Model Avra.Isa

theorem and_ffff (n : Nat) (h : n < 65536) : n &&& 0xffff = n := by
  have : (0xffff : Nat) = 2 ^ 16 - 1 := by decide
  rw [this, Nat.and_two_pow_sub_one_eq_mod]; omega

/-- lds / sts share `eDirect`; `mk` builds the instruction from register and address -/
theorem direct_spec (avr8l : Bool) (base r : Nat) (k : Int) (hr : r < 32)
    (pat32 pat16 : List Nat)
    (h32 : avr8l = false → ∀ d, d < 32 → packOne base d = word pat32 [(fld!"d", d)])
    (h16 : avr8l = true → ∀ d a, 16 ≤ d → d < 32 → 0x40 ≤ a → a ≤ 0xbf →
      packLds16 base d a = word pat16 [(fld!"d", d - 16), (fld!"k", (a / 16 % 4) * 32 + (a / 64 % 2) * 16 + a % 16)]) :
    wordsOf (eDirect avr8l base r k) =
      if avr8l then
        (if 16 ≤ r ∧ r < 32 ∧ inRange 0x40 0xbf k then
          some [word pat16 [(fld!"d", r - 16), (fld!"k", (k.toNat / 16 % 4) * 32 + (k.toNat / 64 % 2) * 16 + k.toNat % 16)]]
         else none)
      else (if r < 32 ∧ inRange 0 65535 k then some [word pat32 [(fld!"d", r)], k.toNat] else none) := by
  unfold eDirect inRange
  cases avr8l
  · simp only [Bool.false_eq_true, if_false]
    by_cases h : k < 0 ∨ k > 65535
    · have : ¬ (r < 32 ∧ ((0 : Int) ≤ k ∧ k ≤ 65535)) := by omega
      simp [h, wordsOf]; omega
    · have hk : k.toNat < 65536 := by omega
      have : (0 : Int) ≤ k ∧ k ≤ 65535 := by omega
      simp [h, hr, this, wordsOf, h32 rfl r hr, and_ffff _ hk]
  · simp only [if_true]
    by_cases h16r : r < 16
    · simp [h16r, wordsOf]; omega
    · by_cases h : k < 0x40 ∨ k > 0xbf
      · simp [h16r, h, wordsOf]; omega
      · have ha : 0x40 ≤ k.toNat ∧ k.toNat ≤ 0xbf := by omega
        have : (0x40 : Int) ≤ k ∧ k ≤ 0xbf := by omega
        have h1 : 16 ≤ r := by omega
        simp [h16r, h, h1, hr, this, wordsOf, h16 rfl r k.toNat h1 hr ha.1 ha.2]

theorem fam_lds (avr8l : Bool) (base : Nat)
    (h32 : avr8l = false → ∀ d, d < 32 → packOne base d = word (pat!"1001 000d dddd 0000") [(fld!"d", d)])
    (h16 : avr8l = true → ∀ d a, 16 ≤ d → d < 32 → 0x40 ≤ a → a ≤ 0xbf →
      packLds16 base d a = word (pat!"1010 0kkk dddd kkkk")
        [(fld!"d", d - 16), (fld!"k", (a / 16 % 4) * 32 + (a / 64 % 2) * 16 + a % 16)])
    (args : List AArg) (hr : regsOk args) :
    wordsOf (eLds avr8l base args) = (sLds avr8l args).map encode := by
  unfold eLds sLds
  split
  · rename_i r k
    simp only [regsOk] at hr
    rw [direct_spec avr8l base r k hr.1 _ _ h32 h16]
    cases avr8l
    · simp only [Bool.false_eq_true, if_false]
      by_cases h : r < 32 ∧ inRange 0 65535 k = true
      · simp [h, encode]
      · simp [h]
    · simp only [if_true]
      by_cases h : 16 ≤ r ∧ r < 32 ∧ inRange 0x40 0xbf k = true
      · simp [h, encode]
      · simp [h]
  · rename_i hne
    split
    · rename_i r k; exact absurd rfl (hne r k)
    · simp [wordsOf]

theorem fam_sts (avr8l : Bool) (base : Nat)
    (h32 : avr8l = false → ∀ d, d < 32 → packOne base d = word (pat!"1001 001d dddd 0000") [(fld!"d", d)])
    (h16 : avr8l = true → ∀ d a, 16 ≤ d → d < 32 → 0x40 ≤ a → a ≤ 0xbf →
      packLds16 base d a = word (pat!"1010 1kkk dddd kkkk")
        [(fld!"d", d - 16), (fld!"k", (a / 16 % 4) * 32 + (a / 64 % 2) * 16 + a % 16)])
    (args : List AArg) (hr : regsOk args) :
    wordsOf (eSts avr8l base args) = (sSts avr8l args).map encode := by
  unfold eSts sSts
  split
  · rename_i k r
    simp only [regsOk] at hr
    rw [direct_spec avr8l base r k hr.1 _ _ h32 h16]
    cases avr8l
    · simp only [Bool.false_eq_true, if_false]
      by_cases h : r < 32 ∧ inRange 0 65535 k = true
      · simp [h, encode]
      · simp [h]
    · simp only [if_true]
      by_cases h : 16 ≤ r ∧ r < 32 ∧ inRange 0x40 0xbf k = true
      · simp [h, encode]
      · simp [h]
  · rename_i hne
    split
    · rename_i k r; exact absurd rfl (hne k r)
    · simp [wordsOf]

/-- index operands: what the model's `indexBits` yields, against the spec's two views
    (displacement form / pointer form), for a load (`st = false`) or a store -/
def idxSpec (st : Bool) (r : Nat) (i : AIndex) : Option (List Nat) :=
  match dispMode i with
  | some (z, q) => some (encode (if st then .std z q r else .ldd r z q))
  | none => (ptrMode i).map fun m => encode (if st then .stp m r else .ldp r m)

/-- finite bit-packing obligation of the ld/st arms: all 9 plain forms and all 3×64 displacements -/
def idxPackOk (base : Nat) (st : Bool) : Prop :=
  ∀ r, r < 32 →
    (∀ i ∈ [AIndex.plain .x, .plain .y, .plain .z, .postInc .x, .postInc .y, .postInc .z,
            .preDec .x, .preDec .y, .preDec .z],
      (indexBits i).map (fun b => [packOne base r ||| b]) = idxSpec st r i) ∧
    (∀ q, q < 64 → ∀ p ∈ [Reg16.y, .z],
      [packOne base r ||| (regValue p ||| packDisp q)] = encode (if st then .std (p = .z) q r else .ldd r (p = .z) q))

theorem index_spec (base : Nat) (st : Bool) (h : idxPackOk base st) (r : Nat) (hr : r < 32) (i : AIndex) :
    (indexBits i).map (fun b => [packOne base r ||| b]) = idxSpec st r i := by
  have hp := h r hr
  cases i with
  | plain p => cases p <;> exact hp.1 _ (by simp)
  | postInc p => cases p <;> exact hp.1 _ (by simp)
  | preDec p => cases p <;> exact hp.1 _ (by simp)
  | disp p q =>
    cases p with
    | x => cases q <;> simp [indexBits, idxSpec, dispMode, ptrMode]
    | y =>
      cases q with
      | none => simp [indexBits, idxSpec, dispMode, ptrMode]
      | some v =>
        simp only [indexBits, idxSpec, dispMode, ptrMode]
        rw [fSmall_spec 63 (by omega)]
        by_cases hv : inRange 0 63 v = true
        · have hk : v.toNat < 64 := by unfold inRange at hv; simp at hv; omega
          have := hp.2 v.toNat hk .y (by simp)
          simp [hv, this]
        · simp [hv]
    | z =>
      cases q with
      | none => simp [indexBits, idxSpec, dispMode, ptrMode]
      | some v =>
        simp only [indexBits, idxSpec, dispMode, ptrMode]
        rw [fSmall_spec 63 (by omega)]
        by_cases hv : inRange 0 63 v = true
        · have hk : v.toNat < 64 := by unfold inRange at hv; simp at hv; omega
          have := hp.2 v.toNat hk .z (by simp)
          simp [hv, this]
        · simp [hv]

theorem wordsOf_map (o : Option Nat) (f : Nat → Nat) :
    wordsOf (o.map fun b => (f b, none)) = o.map fun b => [f b] := by
  cases o <;> simp [wordsOf]

theorem fam_ld (base : Nat) (h : idxPackOk base false) (args : List AArg) (hr : regsOk args) :
    wordsOf (eLd base args) = (sLd args).map encode := by
  unfold eLd sLd
  split
  · rename_i r i
    simp only [regsOk] at hr
    rw [wordsOf_map, index_spec base false h r hr.1 i]
    simp only [hr.1, if_true, idxSpec]
    cases hd : dispMode i with
    | none => cases ptrMode i <;> simp
    | some zq => simp
  · rename_i hne
    split
    · rename_i r i; exact absurd rfl (hne r i)
    · simp [wordsOf]

theorem fam_st (base : Nat) (h : idxPackOk base true) (args : List AArg) (hr : regsOk args) :
    wordsOf (eSt base args) = (sSt args).map encode := by
  unfold eSt sSt
  split
  · rename_i i r
    simp only [regsOk] at hr
    rw [wordsOf_map, index_spec base true h r hr.1 i]
    simp only [hr.1, if_true, idxSpec]
    cases hd : dispMode i with
    | none => cases ptrMode i <;> simp
    | some zq => simp
  · rename_i hne
    split
    · rename_i i r; exact absurd rfl (hne i r)
    · simp [wordsOf]

theorem fam_in (base : Nat)
    (hpack : ∀ r a, r < 32 → a < 64 → packIo base r a = word (pat!"1011 0AAd dddd AAAA") [(fld!"d", r), (fld!"A", a)])
    (args : List AArg) (hr : regsOk args) :
    wordsOf (eIn base args) = (sIn args).map encode := by
  unfold eIn sIn
  split
  · rename_i r v
    simp only [regsOk] at hr
    rw [fSmall_spec 63 (by omega)]
    by_cases hv : inRange 0 63 v = true
    · have hk : v.toNat < 64 := by unfold inRange at hv; simp at hv; omega
      simp [hv, hr.1, wordsOf, encode, hpack r v.toNat hr.1 hk]
    · simp [hv, wordsOf]
  · rename_i hne
    split
    · rename_i r v; exact absurd rfl (hne r v)
    · simp [wordsOf]

theorem fam_out (base : Nat)
    (hpack : ∀ r a, r < 32 → a < 64 → packIo base r a = word (pat!"1011 1AAd dddd AAAA") [(fld!"d", r), (fld!"A", a)])
    (args : List AArg) (hr : regsOk args) :
    wordsOf (eOut base args) = (sOut args).map encode := by
  unfold eOut sOut
  split
  · rename_i v r
    simp only [regsOk] at hr
    rw [fSmall_spec 63 (by omega)]
    by_cases hv : inRange 0 63 v = true
    · have hk : v.toNat < 64 := by unfold inRange at hv; simp at hv; omega
      simp [hv, hr.1, wordsOf, encode, hpack r v.toNat hr.1 hk]
    · simp [hv, wordsOf]
  · rename_i hne
    split
    · rename_i v r; exact absurd rfl (hne v r)
    · simp [wordsOf]

theorem fam_regbit (base : Nat) (mk : Nat → Nat → Instr)
    (hpack : ∀ r b, r < 32 → b < 8 → [packOne base r ||| b] = encode (mk r b))
    (args : List AArg) (hr : regsOk args) :
    wordsOf (eRegBit base args) = (sRegBit mk args).map encode := by
  unfold eRegBit sRegBit
  split
  · rename_i r v
    simp only [regsOk] at hr
    rw [fBit_spec]
    by_cases hv : inRange 0 7 v = true
    · have hk : v.toNat < 8 := by unfold inRange at hv; simp at hv; omega
      simp [hv, hr.1, wordsOf, hpack r v.toNat hr.1 hk]
    · simp [hv, wordsOf]
  · rename_i hne
    split
    · rename_i r v; exact absurd rfl (hne r v)
    · simp [wordsOf]

theorem fam_iobit (base : Nat) (o : IoBitOp)
    (hpack : ∀ a b, a < 32 → b < 8 → base ||| (a <<< 3) ||| b = word (iobPat o) [(fld!"A", a), (fld!"b", b)])
    (args : List AArg) (_hr : regsOk args) :
    wordsOf (eIoBit base args) = (sIoBit o args).map encode := by
  unfold eIoBit sIoBit
  split
  · rename_i a b
    rw [fSmall_spec 31 (by omega), fBit_spec]
    by_cases ha : inRange 0 31 a = true
    · by_cases hb : inRange 0 7 b = true
      · have hk : a.toNat < 32 := by unfold inRange at ha; simp at ha; omega
        have hk2 : b.toNat < 8 := by unfold inRange at hb; simp at hb; omega
        simp [ha, hb, wordsOf, encode, hpack _ _ hk hk2]
      · simp [ha, hb, wordsOf]
    · simp [ha, wordsOf]
  · rename_i hne
    split
    · rename_i a b; exact absurd rfl (hne a b)
    · simp [wordsOf]

theorem fam_flagv (base : Nat) (clear : Bool)
    (hpack : ∀ s, s < 8 → base ||| (s <<< 4) =
      word (if clear then pat!"1001 0100 1sss 1000" else pat!"1001 0100 0sss 1000") [(fld!"s", s)])
    (args : List AArg) (_hr : regsOk args) :
    wordsOf (eFlagV base args) = (sFlagV clear args).map encode := by
  unfold eFlagV sFlagV
  split
  · rename_i v
    rw [fBit_spec]
    by_cases hv : inRange 0 7 v = true
    · have hk : v.toNat < 8 := by unfold inRange at hv; simp at hv; omega
      simp [hv, wordsOf, encode, hpack _ hk]
    · simp [hv, wordsOf]
  · rename_i hne
    split
    · rename_i v; exact absurd rfl (hne v)
    · simp [wordsOf]

theorem fam_none (w : Nat) (i : Instr) (h : [w] = encode i) (args : List AArg) :
    wordsOf (eNone w args) = (sNone i args).map encode := by
  unfold eNone sNone
  split
  · simp [wordsOf, h]
  · rename_i hne
    split
    · exact absurd rfl hne
    · simp [wordsOf]

theorem fam_flag (base num : Nat) (i : Instr) (h : [base ||| (num <<< 4)] = encode i) (args : List AArg) :
    wordsOf (eFlag base (some num) args) = (sNone i args).map encode := by
  unfold eFlag sNone
  split
  · simp [wordsOf, h]
  · rename_i hne
    split
    · exact absurd rfl hne
    · simp [wordsOf]

theorem fam_lpm (base : Nat) (ext : Bool)
    (h0 : [if ext then 0x95d8 else 0x95c8] = encode (if ext then .elpm0 else .lpm0))
    (hpack : ∀ d, d < 32 → ∀ inc : Bool,
      [packOne base d ||| (if inc then 0b101 else 0b100) ||| (if ext then 0b10 else 0)] = encode (.lpm ext d inc))
    (args : List AArg) (hr : regsOk args) :
    wordsOf (eLpm base ext args) = (sLpm ext args).map encode := by
  unfold eLpm sLpm
  split
  · simp [wordsOf, h0]
  · rename_i r i
    simp only [regsOk] at hr
    cases i with
    | plain p =>
      cases p <;> simp [wordsOf, hr.1]
      simpa using hpack r hr.1 false
    | postInc p =>
      cases p <;> simp [wordsOf, hr.1]
      simpa using hpack r hr.1 true
    | preDec p => cases p <;> simp [wordsOf]
    | disp p q => cases p <;> simp [wordsOf]
  · rename_i hne1 hne2
    split
    · exact absurd rfl hne1
    · rename_i d; exact absurd rfl (hne2 d _)
    · rename_i d; exact absurd rfl (hne2 d _)
    · simp [wordsOf]

end Avra.Lemmas
