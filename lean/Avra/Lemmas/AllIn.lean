/-
  Helper lemmas: lifting kernel-evaluated `allIn` checks to universally quantified statements.
-/
import Avra.Basic
namespace Avra.Lemmas
open Avra

theorem allIn1 (p : Nat → Bool) (b : Nat) (h : allIn p b 0 = true) : ∀ x, x < 2 ^ b → p x = true := by
  intro x hx
  have := allIn_spec p b 0 h x hx
  simpa using this

theorem allIn2 (p : Nat → Nat → Bool) (b1 b2 : Nat)
    (h : allIn (fun i => p (i / 2 ^ b2) (i % 2 ^ b2)) (b1 + b2) 0 = true) :
    ∀ x y, x < 2 ^ b1 → y < 2 ^ b2 → p x y = true := by
  intro x y hx hy
  have hpos : 0 < 2 ^ b2 := Nat.two_pow_pos b2
  have hi : x * 2 ^ b2 + y < 2 ^ (b1 + b2) := by
    rw [Nat.pow_add]
    calc x * 2 ^ b2 + y < x * 2 ^ b2 + 2 ^ b2 := by omega
      _ = (x + 1) * 2 ^ b2 := by rw [Nat.add_mul]; omega
      _ ≤ 2 ^ b1 * 2 ^ b2 := Nat.mul_le_mul_right _ hx
  have := allIn_spec _ (b1 + b2) 0 h (x * 2 ^ b2 + y) hi
  simp only [Nat.zero_add] at this
  have e1 : (x * 2 ^ b2 + y) / 2 ^ b2 = x := by
    rw [Nat.add_comm, Nat.add_mul_div_right _ _ hpos, Nat.div_eq_of_lt hy]; omega
  have e2 : (x * 2 ^ b2 + y) % 2 ^ b2 = y := by
    rw [Nat.add_comm, Nat.add_mul_mod_self_right, Nat.mod_eq_of_lt hy]
  rw [e1, e2] at this
  exact this

end Avra.Lemmas
