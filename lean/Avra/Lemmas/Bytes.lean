/-
  Every image a build returns consists of bytes (values below 256): instruction words are split
  with `% 256`, data values are reduced to their width, strings are UTF-8, padding is zero.
-/
import Avra.Model.Build
namespace Avra.Lemmas.Bytes
open Avra Avra.Model

theorem bytesOk_append {a b : List Nat} (ha : bytesOk a) (hb : bytesOk b) : bytesOk (a ++ b) := by
  intro x hx; rcases List.mem_append.mp hx with h | h; exact ha x h; exact hb x h

theorem bytesOk_nil : bytesOk [] := fun _ h => by cases h

theorem bytesOk_replicate (n : Nat) : bytesOk (List.replicate n 0) := by
  intro x hx; rw [List.mem_replicate] at hx; omega

theorem leBytes_ok : ∀ (w x : Nat), bytesOk (leBytes w x)
  | 0, _ => bytesOk_nil
  | w + 1, x => by
    intro b hb
    simp only [leBytes, List.mem_cons] at hb
    rcases hb with rfl | hb
    · exact Nat.mod_lt _ (by decide)
    · exact leBytes_ok w _ b hb

theorem wordsBytes_ok (ws : Nat × Option Nat) : bytesOk (wordsBytes ws) := by
  obtain ⟨w, o⟩ := ws
  cases o with
  | none => exact leBytes_ok 2 w
  | some w2 => exact bytesOk_append (leBytes_ok 2 w) (leBytes_ok 2 w2)

theorem process_ok (c : Ctx) (op : Op) (args : List IOp) (addr : Nat) (bytes : List Nat)
    (h : process c op args addr = .ok bytes) : bytesOk bytes := by
  unfold process at h
  repeat' split at h
  all_goals first
    | (simp at h; done)
    | (simp only [EncRes.ok.injEq] at h; subst h; exact wordsBytes_ok _)

theorem utf8Char_ok (c : Char) : bytesOk (utf8Char c) := by
  have hv : c.toNat < 1114112 := by
    have := c.valid
    simp only [Char.toNat, UInt32.isValidChar, Nat.isValidChar] at this ⊢
    omega
  unfold utf8Char
  intro b hb
  dsimp only at hb
  split at hb
  · simp at hb; omega
  · split at hb
    · simp at hb; omega
    · split at hb
      · simp at hb; omega
      · simp at hb; omega

theorem utf8_ok (s : Str) : bytesOk (utf8 s) := by
  intro b hb
  simp only [utf8, List.mem_flatMap] at hb
  obtain ⟨c, _, hc⟩ := hb
  exact utf8Char_ok c b hc

theorem operandBytes_ok (c : Ctx) (dt : DataDefine) (o : Operand) (bytes : List Nat)
    (h : operandBytes c dt o = .ok bytes) : bytesOk bytes := by
  unfold operandBytes at h
  repeat' split at h
  all_goals first
    | (simp at h; done)
    | (simp only [DataRes.ok.injEq] at h; subst h; exact utf8_ok _)
    | (simp only [DataRes.ok.injEq] at h; subst h; exact leBytes_ok _ _)

theorem dataBytes_ok (c : Ctx) (dt : DataDefine) : ∀ (ops : List Operand) (bytes : List Nat),
    dataBytes c dt ops = .ok bytes → bytesOk bytes := by
  intro ops
  induction ops with
  | nil => intro bytes h; simp [dataBytes] at h; subst h; exact bytesOk_nil
  | cons o more ih =>
    intro bytes h
    unfold dataBytes at h
    cases hb : operandBytes c dt o with
    | ok b =>
      rw [hb] at h
      dsimp only at h
      cases hbs : dataBytes c dt more with
      | ok bs =>
        rw [hbs] at h
        simp only [DataRes.ok.injEq] at h
        subst h
        exact bytesOk_append (operandBytes_ok _ _ _ _ hb) (ih _ hbs)
      | err => rw [hbs] at h; simp at h
      | oof => rw [hbs] at h; simp at h
    | err => rw [hb] at h; simp at h
    | oof => rw [hb] at h; simp at h

theorem pass2Items_ok (t : SegT) : ∀ (its : List (Nat × Item)) (cur : Nat) (acc : List Nat) (ctx : Ctx)
    (frag : List Nat) (ctx' : Ctx), bytesOk acc → pass2Items t its cur acc ctx = .ok (frag, ctx') → bytesOk frag := by
  intro its
  induction its with
  | nil => intro cur acc ctx frag ctx' ha h; simp [pass2Items] at h; rw [← h.1]; exact ha
  | cons x rest ih =>
    obtain ⟨ln, it⟩ := x
    intro cur acc ctx frag ctx' ha h
    unfold pass2Items at h
    dsimp only at h
    repeat' split at h
    all_goals first
      | (simp [lineErr] at h; done)
      | (refine ih _ _ _ _ _ ?_ h
         first
           | exact ha
           | exact bytesOk_append ha (process_ok _ _ _ _ _ (by assumption))
           | exact bytesOk_append ha (dataBytes_ok _ _ _ _ (by assumption))
           | exact bytesOk_append ha (bytesOk_replicate _))

theorem pass2go_ok (p1 : Pass1Result) : ∀ (segs : List Segment) (code ee : List Nat) (ctx : Ctx) (r : Pass2Result),
    bytesOk code → bytesOk ee → pass2.go p1 segs code ee ctx = .ok r → bytesOk r.code ∧ bytesOk r.eeprom := by
  intro segs
  induction segs with
  | nil => intro code ee ctx r hc he h; simp [pass2.go] at h; subst h; exact ⟨hc, he⟩
  | cons s more ih =>
    intro code ee ctx r hc he h
    unfold pass2.go at h
    dsimp only at h
    cases hp : pass2Items s.t s.items s.address [] ctx with
    | ok v =>
      obtain ⟨frag, ctx'⟩ := v
      have hf := pass2Items_ok s.t s.items s.address [] ctx frag ctx' bytesOk_nil hp
      rw [hp] at h
      dsimp only at h
      cases ht : s.t <;> simp only [ht] at h
      · exact ih _ _ _ _ (bytesOk_append (bytesOk_append hc (bytesOk_replicate _)) hf) he h
      · exact ih _ _ _ _ hc he h
      · exact ih _ _ _ _ hc (bytesOk_append (bytesOk_append he (bytesOk_replicate _)) hf) h
    | error e => rw [hp] at h; simp at h
    | panic p => rw [hp] at h; simp at h
    | oof => rw [hp] at h; simp at h

/-- every image a build returns consists of bytes -/
theorem build_bytes_ok (fs : Fs) (st : PState) (b : BuildResult) (h : buildFromParsed fs st = .ok b) :
    bytesOk b.code ∧ bytesOk b.eeprom := by
  unfold buildFromParsed at h
  dsimp only at h
  repeat' split at h
  all_goals first
    | (simp [noLineErr] at h; done)
    | (rename_i hp0 _ hp1 _ hp2 _ _ _
       simp only [Out.ok.injEq] at h; subst h
       exact pass2go_ok _ _ _ _ _ _ bytesOk_nil bytesOk_nil hp2)

end Avra.Lemmas.Bytes
