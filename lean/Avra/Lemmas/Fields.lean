/-
  Helper lemmas: the field extractors of the encoder model (the Rust guards and casts) accept
  exactly the ranges the ISA allows and yield the two's-complement field — for every i64 value.
-/
import Avra.Model.Encode
namespace Avra.Lemmas
open Avra Avra.Model Avra.Isa

/-- words of an encoder result -/
def wordsOf : W → Option (List Nat)
  | some (w, none) => some [w]
  | some (w, some w2) => some [w, w2]
  | none => none

/-- registers among resolved operands are real registers (what the parser and `.def` yield) -/
def regsOk : List AArg → Prop
  | [] => True
  | .reg n :: rest => n < 32 ∧ regsOk rest
  | _ :: rest => regsOk rest

theorem fByte_eq_imm8 (v : Int) : fByte v = imm8 v := by
  unfold fByte imm8 inRange asU
  by_cases h : v > 255 ∨ v < -128
  · have : ¬ ((-128 : Int) ≤ v ∧ v ≤ 255) := by omega
    simp [h, this]
  · have : ((-128 : Int) ≤ v ∧ v ≤ 255) := by omega
    simp [h, this]

theorem imm8_lt (v : Int) (k : Nat) (h : imm8 v = some k) : k < 256 := by
  unfold imm8 at h; split at h
  · injection h with h; omega
  · contradiction

/-- `get_byte(..)? as i8` followed by `k < 0 || k > hi` accepts exactly 0..hi (hi ≤ 127) -/
theorem fSmall_spec (hi : Int) (hhi : 0 ≤ hi ∧ hi ≤ 127) (v : Int) :
    fSmall hi v = if inRange 0 hi v then some v.toNat else none := by
  unfold fSmall fByte inRange asU u8AsI8
  by_cases h1 : v > 255 ∨ v < -128
  · have : ¬ ((0 : Int) ≤ v ∧ v ≤ hi) := by omega
    simp [h1, this]
  · simp only [h1, if_false]
    have hb : -128 ≤ v ∧ v ≤ 255 := by omega
    by_cases hneg : v < 0
    · -- negative bytes wrap to 128..255 and come back negative through `as i8`
      have e : (v % (2 ^ 8 : Int)).toNat = (v + 256).toNat := by
        have : v % (2 ^ 8 : Int) = v + 256 := by
          have := Int.emod_emod_of_dvd v (by decide : (256 : Int) ∣ 256)
          omega
        rw [this]
      have h2 : ¬ ((v + 256).toNat < 128) := by omega
      have h3 : ¬ ((0 : Int) ≤ v ∧ v ≤ hi) := by omega
      simp only [e, h2, if_false]
      have : ((v + 256).toNat : Int) - 256 < 0 := by omega
      simp [this, h3]
      omega
    · have e : (v % (2 ^ 8 : Int)).toNat = v.toNat := by
        have : v % (2 ^ 8 : Int) = v := by omega
        rw [this]
      simp only [e]
      by_cases h128 : v.toNat < 128
      · simp only [h128, if_true]
        by_cases hr : (0 : Int) ≤ v ∧ v ≤ hi
        · have : ¬ (((v.toNat : Nat) : Int) < 0 ∨ ((v.toNat : Nat) : Int) > hi) := by omega
          simp [this, hr]
          omega
        · have : (((v.toNat : Nat) : Int) < 0 ∨ ((v.toNat : Nat) : Int) > hi) := by omega
          simp [this, hr]
          omega
      · simp only [h128, if_false]
        have h3 : ¬ ((0 : Int) ≤ v ∧ v ≤ hi) := by omega
        have : ((v.toNat : Nat) : Int) - 256 < 0 := by omega
        simp [this, h3]
        omega

theorem fBit_spec (v : Int) : fBit v = if inRange 0 7 v then some v.toNat else none := by
  unfold fBit inRange
  by_cases h : v < 0 ∨ v > 7
  · have : ¬ ((0 : Int) ≤ v ∧ v ≤ 7) := by omega
    simp [h, this]
  · have : ((0 : Int) ≤ v ∧ v ≤ 7) := by omega
    simp [h, this]

/-- the relative-address fields: accepted iff the displacement fits, and then the field is the
    displacement's two's complement in 12 (rjmp/rcall) resp. 7 (branches) bits -/
theorem fRel12_spec (addr : Nat) (t : Int) :
    fRel (-2048) 2047 0x0fff addr t =
      if inRange (-2048) 2047 (relOf addr t) then some (twos 12 (relOf addr t)) else none := by
  unfold fRel inRange relOf
  by_cases h : t - ((addr : Int) + 1) < -2048 ∨ t - ((addr : Int) + 1) > 2047
  · have : ¬ (-2048 ≤ t - ((addr : Int) + 1) ∧ t - ((addr : Int) + 1) ≤ 2047) := by omega
    simp [h, this]
  · have : (-2048 ≤ t - ((addr : Int) + 1) ∧ t - ((addr : Int) + 1) ≤ 2047) := by omega
    simp only [h, this, if_false, if_true, and_self, decide_true, Bool.and_self]
    congr 1
    unfold asU twos
    have e : (0x0fff : Nat) = 2 ^ 12 - 1 := by decide
    rw [e, Nat.and_two_pow_sub_one_eq_mod]
    generalize t - ((addr : Int) + 1) = rel
    omega

theorem fRel7_spec (addr : Nat) (t : Int) :
    fRel (-64) 63 0x7f addr t =
      if inRange (-64) 63 (relOf addr t) then some (twos 7 (relOf addr t)) else none := by
  unfold fRel inRange relOf
  by_cases h : t - ((addr : Int) + 1) < -64 ∨ t - ((addr : Int) + 1) > 63
  · have : ¬ (-64 ≤ t - ((addr : Int) + 1) ∧ t - ((addr : Int) + 1) ≤ 63) := by omega
    simp [h, this]
  · have : (-64 ≤ t - ((addr : Int) + 1) ∧ t - ((addr : Int) + 1) ≤ 63) := by omega
    simp only [h, this, if_false, if_true, and_self, decide_true, Bool.and_self]
    congr 1
    unfold asU twos
    have e : (0x7f : Nat) = 2 ^ 7 - 1 := by decide
    rw [e, Nat.and_two_pow_sub_one_eq_mod]
    generalize t - ((addr : Int) + 1) = rel
    omega

theorem twos12_lt (k : Int) : twos 12 k < 4096 := by unfold twos; omega
theorem twos7_lt (k : Int) : twos 7 k < 128 := by unfold twos; omega

end Avra.Lemmas
