/-
  Composition of the line loop over concatenated texts ("pasting"): locality of the skipper and
  the append lemma `run_append`.
-/
import Avra.Lemmas.Iter
namespace Avra.Lemmas.Paste
open Avra Avra.Model Avra.Lemmas.Iter

/-- the `.endif` search: a continuation line found inside `ls1` is found all the same when more
    text follows -/
theorem skipCond_local (all : Bool) : ∀ (ls1 : List (Nat × Str)) (depth : Nat) (l : Nat × Str) (re : Bool)
    (rest ls2 : List (Nat × Str)), skipCond all depth ls1 = (some l, re, rest, false) →
    skipCond all depth (ls1 ++ ls2) = (some l, re, rest ++ ls2, false) := by
  intro ls1
  induction ls1 with
  | nil => intro depth l re rest ls2 h; simp [skipCond] at h
  | cons x xs ih =>
    obtain ⟨num, t⟩ := x
    intro depth l re rest ls2 h
    simp only [List.cons_append]
    unfold skipCond at h ⊢
    split at h
    · rename_i lab d ops o hp
      split at h
      · rename_i ho; rw [if_pos ho]; exact ih _ _ _ _ _ h
      · rename_i ho
        rw [if_neg ho]
        split at h
        · rename_i hs
          rw [if_pos hs]
          split at h
          · rename_i hd0
            rw [if_pos hd0]
            split at h
            · rename_i ha; rw [if_pos ha]; exact ih _ _ _ _ _ h
            · rename_i ha
              rw [if_neg ha]
              split at h
              · rename_i he
                rw [if_pos he]
                simp only [Prod.mk.injEq, Option.some.injEq] at h
                obtain ⟨rfl, rfl, rfl, _⟩ := h
                rfl
              · rename_i he
                rw [if_neg he]
                cases xs with
                | nil => simp at h
                | cons nx r =>
                  simp only [Prod.mk.injEq, Option.some.injEq] at h
                  obtain ⟨rfl, rfl, rfl, _⟩ := h
                  rfl
          · rename_i hd0
            rw [if_neg hd0]
            split at h
            · rename_i he; rw [if_pos he]; exact ih _ _ _ _ _ h
            · rename_i he; rw [if_neg he]; exact ih _ _ _ _ _ h
        · rename_i hs; rw [if_neg hs]; exact ih _ _ _ _ _ h
    · rename_i hp; simp at h
    · exact ih _ _ _ _ _ h

/-- the macro-body collection: the same -/
theorem skipMacro_local : ∀ (ls1 acc : List (Nat × Str)) (body : List (Nat × Str)) (l : Nat × Str)
    (rest ls2 : List (Nat × Str)), skipMacro acc ls1 = (body, some l, rest, false) →
    skipMacro acc (ls1 ++ ls2) = (body, some l, rest ++ ls2, false) := by
  intro ls1
  induction ls1 with
  | nil => intro acc body l rest ls2 h; simp [skipMacro] at h
  | cons x xs ih =>
    obtain ⟨num, t⟩ := x
    intro acc body l rest ls2 h
    simp only [List.cons_append]
    unfold skipMacro at h ⊢
    split at h
    · rename_i lab d ops o hp
      split at h
      · rename_i hd
        rw [if_pos hd]
        cases xs with
        | nil => simp at h
        | cons nx r =>
          simp only [Prod.mk.injEq, Option.some.injEq] at h
          obtain ⟨rfl, rfl, rfl, _⟩ := h
          rfl
      · rename_i hd; rw [if_neg hd]; exact ih _ _ _ _ _ h
    · simp at h
    · exact ih _ _ _ _ _ h

/-- the `skip` call at the head of the loop: a line delivered from inside `ls1` is delivered all
    the same, with the same state, when more text follows -/
theorem skipStep_local (st : PState) (ni : NextItem) (ls1 ls2 : List (Nat × Str)) (st' : PState)
    (l : Nat × Str) (re : Bool) (rest : List (Nat × Str))
    (h : skipStep st ni ls1 = (st', some l, re, rest, false)) :
    skipStep st ni (ls1 ++ ls2) = (st', some l, re, rest ++ ls2, false) := by
  unfold skipStep at h ⊢
  cases ni with
  | newLine =>
    cases ls1 with
    | nil => simp at h
    | cons x xs =>
      simp only [Prod.mk.injEq, Option.some.injEq] at h
      obtain ⟨rfl, rfl, rfl, rfl, _⟩ := h
      rfl
  | endFile => simp at h
  | endMacro =>
    simp only at h ⊢
    cases hs : skipMacro [] ls1 with
    | mk body t =>
      obtain ⟨nx, r, o⟩ := t
      rw [hs] at h
      simp only [Prod.mk.injEq] at h
      obtain ⟨rfl, rfl, rfl, rfl, rfl⟩ := h
      rw [skipMacro_local ls1 [] body l r ls2 hs]
  | endIf =>
    simp only at h ⊢
    cases hs : skipCond false 0 ls1 with
    | mk nx t =>
      obtain ⟨re', r, o⟩ := t
      rw [hs] at h
      simp only [Prod.mk.injEq] at h
      obtain ⟨rfl, rfl, rfl, rfl, rfl⟩ := h
      rw [skipCond_local false ls1 0 l re' r ls2 hs]
  | endIfAll =>
    simp only at h ⊢
    cases hs : skipCond true 0 ls1 with
    | mk nx t =>
      obtain ⟨re', r, o⟩ := t
      rw [hs] at h
      simp only [Prod.mk.injEq] at h
      obtain ⟨rfl, rfl, rfl, rfl, rfl⟩ := h
      rw [skipCond_local true ls1 0 l re' r ls2 hs]

/-- a skip that ends exactly with the last line of `ls1` (its `.endif` / `.endm` is the last line):
    alone it delivers nothing more; with more text after it, it delivers the first line of that text -/
def SkipsAll (st : PState) (ni : NextItem) (ls1 : List (Nat × Str)) (st' : PState) : Prop :=
  skipStep st ni ls1 = (st', none, false, [], false) ∧
  ∀ nx rest, skipStep st ni (ls1 ++ nx :: rest) = (st', some nx, false, rest, false)

/-- the loop over `ls1`, started at `(s, ni)`, works its way through ALL of `ls1` and ends with
    nothing pending (no skip still looking for its end, no `.exit`), in state `s'` -/
inductive Completes (inc : IncludeFn) (cur : Str) : PState × List Str → NextItem → List (Nat × Str) → PState × List Str → Prop
  | done (s : PState × List Str) : Completes inc cur s .newLine [] s
  | skipEnd (s : PState × List Str) (ni : NextItem) (ls : List (Nat × Str)) (st' : PState) :
      SkipsAll s.1 ni ls st' → Completes inc cur s ni ls (st', s.2)
  | step (s : PState × List Str) (ni : NextItem) (ls rest : List (Nat × Str)) (st1 st' : PState) (idx : Nat)
      (text : Str) (re : Bool) (incs' : List Str) (ni' : NextItem) (s'' : PState × List Str) :
      skipStep s.1 ni ls = (st1, some (idx, text), re, rest, false) →
      lineStep inc cur s.2 st1 idx text re = .ok (st', incs', ni') →
      Completes inc cur (st', incs') ni' rest s'' → Completes inc cur s ni ls s''

/-- **The append lemma.**  If the loop completes over `ls1`, then running it over `ls1 ++ ls2`
    is running it over `ls2` from the state `ls1` left, with nothing pending; in particular
    (`ls2 = []`) the run over `ls1` alone ends in that state. -/
theorem run_append (inc : IncludeFn) (cur : Str) (s : PState × List Str) (ni : NextItem)
    (ls1 : List (Nat × Str)) (s' : PState × List Str) (h : Completes inc cur s ni ls1 s') :
    ∀ ls2, runFrom inc cur s ni (ls1 ++ ls2) = runFrom inc cur s' .newLine ls2 := by
  induction h with
  | done s => intro ls2; rfl
  | skipEnd s ni ls st' hs =>
    intro ls2
    cases ls2 with
    | nil =>
      rw [List.append_nil, runFrom_step, hs.1, runFrom_step]
      simp [skipStep]
    | cons nx rest =>
      rw [runFrom_step, hs.2 nx rest, runFrom_step]
      simp [skipStep]
  | step s ni ls rest st1 st' idx text re incs' ni' s'' hsk hls _ ih =>
    intro ls2
    rw [runFrom_step, skipStep_local _ _ _ ls2 _ _ _ _ hsk]
    simp only [hls]
    exact ih ls2

theorem run_alone (inc : IncludeFn) (cur : Str) (s : PState × List Str) (ni : NextItem)
    (ls1 : List (Nat × Str)) (s' : PState × List Str) (h : Completes inc cur s ni ls1 s') :
    runFrom inc cur s ni ls1 = .ok s' := by
  have := run_append inc cur s ni ls1 s' h []
  rw [List.append_nil] at this
  rw [this, runFrom_step]
  simp [skipStep]

end Avra.Lemmas.Paste
