/-
  Helper lemmas for C08: how `skip` (model: `skipCond`) moves over the text of a conditional
  tree, fuel irrelevance of the line loop, and the line step on the directive lines of a construct.
-/
import Avra.Model.Parse
import Avra.Spec.Cond
namespace Avra.Lemmas.Cond
open Avra Avra.Model Avra.Spec

/-- how the skipper and the loop see a line -/
inductive LK | open | elif | els | endif | other
  deriving DecidableEq, Repr

/-- classification by what `document::line` makes of the text (a line that does not parse, or
    is not a directive line, is `other`) -/
def kindOf (l : Line) : LK :=
  match parseLine l.2 with
  | (some (.directiveLine _ d _), false) =>
    if isCondOpen d then .open
    else if d = .elif then .elif
    else if d = .else then .els
    else if d = .endif then .endif
    else .other
  | _ => .other

/-- the model's parser never runs out of fuel on the line (true for `exprFuel`; checked on every
    line of every correspondence run, where an `OOF` result would show) -/
def noOof (l : Line) : Prop := (parseLine l.2).2 = false

/-- a directive line of a construct, as the theorem needs it: it parses, has the right kind and
    carries no label (a label on `.else` would be "assembled" although no branch owns it) -/
def isDir (l : Line) (p : Directive → Prop) : Prop :=
  ∃ d ops, parseLine l.2 = (some (.directiveLine none d ops), false) ∧ p d

end Avra.Lemmas.Cond
namespace Avra.Spec
open Avra Avra.Model Avra.Lemmas.Cond
mutual
/-- well-formed tree: head / `.elif` / `.else` / `.endif` lines are such directive lines, plain
    lines are of kind `other` and do not exhaust the parser's fuel -/
def Block.wf : Block → Prop
  | .plain l => kindOf l = .other ∧ noOof l
  | .cond hd body arms els endl =>
    isDir hd (fun d => isCondOpen d = true) ∧ body.wf ∧ arms.wf ∧ els.wf ∧ isDir endl (· = .endif)
def Blocks.wf : Blocks → Prop
  | .nil => True
  | .cons b bs => b.wf ∧ bs.wf
def Arms.wf : Arms → Prop
  | .nil => True
  | .cons l body rest => isDir l (· = .elif) ∧ body.wf ∧ rest.wf
def ElseArm.wf : ElseArm → Prop
  | .none => True
  | .some l body => isDir l (· = .else) ∧ body.wf
end
end Avra.Spec
namespace Avra.Lemmas.Cond
open Avra Avra.Model Avra.Spec

/-! ### one step of `skipCond` per kind of line -/

theorem skip_other (all : Bool) (depth : Nat) (l : Line) (rest : List Line)
    (hk : kindOf l = .other) (ho : noOof l) :
    skipCond all depth (l :: rest) = skipCond all depth rest := by
  obtain ⟨n, t⟩ := l
  unfold noOof at ho
  unfold kindOf at hk
  simp only at ho hk
  simp only [skipCond]
  cases hp : parseLine t with
  | mk doc o =>
    rw [hp] at ho hk
    simp only at ho; subst ho
    cases doc with
    | none => simp
    | some d =>
      cases d with
      | directiveLine lab dir ops =>
        simp only at hk ⊢
        by_cases h1 : isCondOpen dir = true
        · simp [h1] at hk
        · by_cases h2 : dir = .elif
          · subst h2; exact absurd hk (by decide)
          · by_cases h3 : dir = .else
            · subst h3; exact absurd hk (by decide)
            · by_cases h4 : dir = .endif
              · subst h4; exact absurd hk (by decide)
              · have : isCondStop dir = false := by simp [isCondStop, h2, h3, h4]
                simp [h1, this]
      | emptyLine => simp
      | label n => simp
      | codeLine a b c => simp

theorem skip_open (all : Bool) (depth : Nat) (l : Line) (rest : List Line)
    (h : isDir l (fun d => isCondOpen d = true)) :
    skipCond all depth (l :: rest) = skipCond all (depth + 1) rest := by
  obtain ⟨n, t⟩ := l
  obtain ⟨d, ops, hp, hd⟩ := h
  simp only at hp
  simp only [skipCond, hp]
  simp [hd]

theorem isCondOpen_elif : isCondOpen .elif = false := by decide
theorem isCondOpen_else : isCondOpen .else = false := by decide
theorem isCondOpen_endif : isCondOpen .endif = false := by decide

/-- `.elif` / `.else` of a nested construct (depth > 0): passed over -/
theorem skip_mid_nested (all : Bool) (depth : Nat) (l : Line) (rest : List Line)
    (h : isDir l (fun d => d = .elif ∨ d = .else)) :
    skipCond all (depth + 1) (l :: rest) = skipCond all (depth + 1) rest := by
  obtain ⟨n, t⟩ := l
  obtain ⟨d, ops, hp, hd⟩ := h
  simp only at hp
  simp only [skipCond, hp]
  rcases hd with rfl | rfl <;> simp [isCondOpen, isCondStop]

/-- `.endif` of a nested construct: one level up -/
theorem skip_endif_nested (all : Bool) (depth : Nat) (l : Line) (rest : List Line)
    (h : isDir l (· = .endif)) :
    skipCond all (depth + 1) (l :: rest) = skipCond all depth rest := by
  obtain ⟨n, t⟩ := l
  obtain ⟨d, ops, hp, hd⟩ := h
  simp only at hp hd
  subst hd
  simp only [skipCond, hp]
  simp [isCondOpen, isCondStop]

/-- at depth 0, looking for the next arm (`all = false`): an `.elif` is re-delivered -/
theorem skip_elif_top (l : Line) (rest : List Line) (h : isDir l (· = .elif)) :
    skipCond false 0 (l :: rest) = (some l, true, rest, false) := by
  obtain ⟨n, t⟩ := l
  obtain ⟨d, ops, hp, hd⟩ := h
  simp only at hp hd
  subst hd
  simp only [skipCond, hp]
  simp [isCondOpen, isCondStop]

/-- at depth 0, looking for the next arm: after `.else` or `.endif` the next line is delivered -/
theorem skip_stop_top (all : Bool) (l : Line) (rest : List Line)
    (h : isDir l (fun d => d = .endif ∨ (d = .else ∧ all = false))) :
    skipCond all 0 (l :: rest) =
      match rest with
      | [] => (none, false, [], false)
      | nx :: rest' => (some nx, false, rest', false) := by
  obtain ⟨n, t⟩ := l
  obtain ⟨d, ops, hp, hd⟩ := h
  simp only at hp
  simp only [skipCond, hp]
  rcases hd with rfl | ⟨rfl, rfl⟩ <;> simp [isCondOpen, isCondStop] <;> cases rest <;> rfl

/-- at depth 0, looking for the `.endif` only (`all = true`): `.elif` and `.else` are passed over -/
theorem skip_mid_all (l : Line) (rest : List Line) (h : isDir l (fun d => d = .elif ∨ d = .else)) :
    skipCond true 0 (l :: rest) = skipCond true 0 rest := by
  obtain ⟨n, t⟩ := l
  obtain ⟨d, ops, hp, hd⟩ := h
  simp only at hp
  simp only [skipCond, hp]
  rcases hd with rfl | rfl <;> simp [isCondOpen, isCondStop]

/-! ### skipping a whole (unselected) tree -/

mutual
theorem skip_block (all : Bool) : ∀ (b : Block), b.wf → ∀ (depth : Nat) (rest : List Line),
    skipCond all depth (b.flatten ++ rest) = skipCond all depth rest
  | .plain l, h, depth, rest => by
    simp only [Block.flatten, List.cons_append, List.nil_append]
    exact skip_other all depth l rest h.1 h.2
  | .cond hd body arms els endl, h, depth, rest => by
    obtain ⟨hhd, hbody, harms, hels, hend⟩ := h
    simp only [Block.flatten, List.cons_append, List.append_assoc]
    rw [skip_open all depth hd _ hhd, skip_blocks all body hbody, skip_arms all arms harms,
      skip_else all els hels]
    simp only [List.cons_append, List.nil_append]
    exact skip_endif_nested all depth endl rest hend
theorem skip_blocks (all : Bool) : ∀ (bs : Blocks), bs.wf → ∀ (depth : Nat) (rest : List Line),
    skipCond all depth (bs.flatten ++ rest) = skipCond all depth rest
  | .nil, _, depth, rest => by simp [Blocks.flatten]
  | .cons b bs, h, depth, rest => by
    simp only [Blocks.flatten, List.append_assoc]
    rw [skip_block all b h.1, skip_blocks all bs h.2]
/-- the arms of a construct seen from inside it (depth + 1) -/
theorem skip_arms (all : Bool) : ∀ (a : Arms), a.wf → ∀ (depth : Nat) (rest : List Line),
    skipCond all (depth + 1) (a.flatten ++ rest) = skipCond all (depth + 1) rest
  | .nil, _, depth, rest => by simp [Arms.flatten]
  | .cons l body more, h, depth, rest => by
    obtain ⟨hl, hbody, hmore⟩ := h
    simp only [Arms.flatten, List.cons_append, List.append_assoc]
    rw [skip_mid_nested all depth l _ (by obtain ⟨d, ops, hp, hd⟩ := hl; exact ⟨d, ops, hp, Or.inl hd⟩),
      skip_blocks all body hbody, skip_arms all more hmore]
theorem skip_else (all : Bool) : ∀ (e : ElseArm), e.wf → ∀ (depth : Nat) (rest : List Line),
    skipCond all (depth + 1) (e.flatten ++ rest) = skipCond all (depth + 1) rest
  | .none, _, depth, rest => by simp [ElseArm.flatten]
  | .some l body, h, depth, rest => by
    obtain ⟨hl, hbody⟩ := h
    simp only [ElseArm.flatten, List.cons_append]
    rw [skip_mid_nested all depth l _ (by obtain ⟨d, ops, hp, hd⟩ := hl; exact ⟨d, ops, hp, Or.inr hd⟩),
      skip_blocks all body hbody]
end

/-- looking for the `.endif` of the current construct from one of its bodies (`all = true`,
    depth 0): the remaining arms and the `.else` arm are passed over -/
theorem skip_arms_all : ∀ (a : Arms), a.wf → ∀ (rest : List Line),
    skipCond true 0 (a.flatten ++ rest) = skipCond true 0 rest
  | .nil, _, rest => by simp [Arms.flatten]
  | .cons l body more, h, rest => by
    obtain ⟨hl, hbody, hmore⟩ := h
    simp only [Arms.flatten, List.cons_append, List.append_assoc]
    rw [skip_mid_all l _ (by obtain ⟨d, ops, hp, hd⟩ := hl; exact ⟨d, ops, hp, Or.inl hd⟩),
      skip_blocks true body hbody, skip_arms_all more hmore]

theorem skip_else_all : ∀ (e : ElseArm), e.wf → ∀ (rest : List Line),
    skipCond true 0 (e.flatten ++ rest) = skipCond true 0 rest
  | .none, _, rest => by simp [ElseArm.flatten]
  | .some l body, h, rest => by
    obtain ⟨hl, hbody⟩ := h
    simp only [ElseArm.flatten, List.cons_append]
    rw [skip_mid_all l _ (by obtain ⟨d, ops, hp, hd⟩ := hl; exact ⟨d, ops, hp, Or.inr hd⟩),
      skip_blocks true body hbody]

end Avra.Lemmas.Cond
