/-
  Helper lemmas for C07: text level (hex digits, line splitting, record parsing) and record
  level (interpretation of the generated records).
-/
import Avra.Model.Hex
import Avra.Spec.HexReader
namespace Avra.Lemmas.Hex
open Avra Avra.Model.Hex Avra.Spec.Hex

theorem hexVal_digit : ∀ n, n < 16 → hexVal (hexDigitU n) = some n := by decide

def noNl (t : Str) : Prop := ∀ c ∈ t, c ≠ '\r' ∧ c ≠ '\n'

theorem digit_noNl : ∀ n, n < 16 → hexDigitU n ≠ '\r' ∧ hexDigitU n ≠ '\n' := by decide

theorem hex2U_noNl (b : Nat) : noNl (hex2U b) := by
  intro c hc
  simp only [hex2U, List.mem_cons, List.mem_nil_iff, or_false] at hc
  rcases hc with rfl | rfl
  · exact digit_noNl _ (Nat.mod_lt _ (by decide))
  · exact digit_noNl _ (Nat.mod_lt _ (by decide))

theorem flatMap_hex_noNl (bs : List Nat) : noNl (bs.flatMap hex2U) := by
  intro c hc
  simp only [List.mem_flatMap] at hc
  obtain ⟨b, _, hb⟩ := hc
  exact hex2U_noNl b c hb

theorem hexBytes_hex (bs : List Nat) (h : bytesOk bs) : hexBytes (bs.flatMap hex2U) = some bs := by
  induction bs with
  | nil => rfl
  | cons b bs ih =>
    have hb : b < 256 := h b (by simp)
    have hbs : bytesOk bs := fun x hx => h x (by simp [hx])
    simp only [List.flatMap_cons, hex2U, List.cons_append, List.nil_append, hexBytes]
    rw [hexVal_digit _ (Nat.mod_lt _ (by decide)), hexVal_digit _ (Nat.mod_lt _ (by decide)), ih hbs]
    simp only
    congr 2
    omega

/-! ### line splitting -/

theorem go_append (t : Str) : ∀ (cur s : Str), noNl t →
    splitLines.go cur (t ++ s) = splitLines.go (t.reverse ++ cur) s := by
  induction t with
  | nil => intro cur s _; rfl
  | cons c t ih =>
    intro cur s h
    have hc := h c (by simp)
    have ht : noNl t := fun x hx => h x (by simp [hx])
    simp only [List.cons_append, splitLines.go]
    have : ¬ (c = '\r' ∨ c = '\n') := by simp [hc.1, hc.2]
    simp only [this, if_false]
    rw [ih (c :: cur) s ht]
    simp

theorem go_crlf (cur s : Str) (h : cur ≠ []) :
    splitLines.go cur ('\r' :: '\n' :: s) = cur.reverse :: splitLines.go [] s := by
  simp only [splitLines.go, true_or, or_true, if_true]
  have : cur.isEmpty = false := by cases cur <;> simp_all
  simp [this]

/-- a file made of lines without CR/LF, each followed by CR LF, and a final CR LF -/
theorem split_lines (ls : List Str) (h : ∀ l ∈ ls, l ≠ [] ∧ noNl l) :
    splitLines (ls.flatMap (fun l => l ++ ['\r', '\n']) ++ ['\r', '\n']) = ls := by
  unfold splitLines
  induction ls with
  | nil => simp [splitLines.go]
  | cons l ls ih =>
    have hl := h l (by simp)
    have hls : ∀ x ∈ ls, x ≠ [] ∧ noNl x := fun x hx => h x (by simp [hx])
    simp only [List.flatMap_cons, List.append_assoc]
    rw [go_append l [] _ hl.2]
    simp only [List.append_nil, List.cons_append, List.nil_append]
    rw [go_crlf _ _ (by simpa using hl.1)]
    simp only [List.reverse_reverse]
    congr 1
    exact ih hls

/-! ### records -/

def toRec : Record → Rec
  | .data off v => .data off v
  | .eof => .eof
  | .extSeg a => .extSeg a
  | .extLin a => .extLin a

/-- what the writer's records always satisfy -/
def recOk : Record → Prop
  | .data off v => off < 65536 ∧ v.length < 256 ∧ bytesOk v
  | .eof => True
  | .extSeg a => a < 65536
  | .extLin a => a < 65536

theorem foldl_add (l : List Nat) : ∀ a, l.foldl (· + ·) a = a + l.foldl (· + ·) 0 := by
  induction l with
  | nil => intro a; simp
  | cons x l ih => intro a; simp only [List.foldl_cons]; rw [ih (a + x), ih (0 + x)]; omega

theorem checksum_lt (bs : List Nat) : checksum bs < 256 := by unfold checksum; omega

theorem recordText_ne (r : Record) : recordText r ≠ [] ∧ noNl (recordText r) := by
  constructor
  · simp [recordText]
  · intro c hc
    simp only [recordText, List.mem_cons] at hc
    rcases hc with rfl | hc
    · decide
    · exact flatMap_hex_noNl _ c hc

theorem parse_region (len ah al t : Nat) (payload : List Nat)
    (hlen : len = payload.length) (h256 : len < 256) (hah : ah < 256) (hal : al < 256) (ht : t < 256)
    (hp : bytesOk payload) :
    hexBytes (([len, ah, al, t] ++ payload ++ [checksum ([len, ah, al, t] ++ payload)]).flatMap hex2U) =
      some (len :: ah :: al :: t :: (payload ++ [checksum ([len, ah, al, t] ++ payload)])) ∧
    (payload ++ [checksum ([len, ah, al, t] ++ payload)]).length = len + 1 ∧
    (len + ah + al + t + (payload ++ [checksum ([len, ah, al, t] ++ payload)]).foldl (· + ·) 0) % 256 = 0 ∧
    (payload ++ [checksum ([len, ah, al, t] ++ payload)]).take len = payload := by
  refine ⟨?_, ?_, ?_, ?_⟩
  · have : bytesOk ([len, ah, al, t] ++ payload ++ [checksum ([len, ah, al, t] ++ payload)]) := by
      intro b hb
      simp only [List.mem_append, List.mem_cons, List.mem_nil_iff, or_false] at hb
      rcases hb with (((rfl | rfl | rfl | rfl) | hb) | rfl)
      · omega
      · omega
      · omega
      · omega
      · exact hp b hb
      · exact checksum_lt _
    rw [hexBytes_hex _ this]; simp
  · simp [hlen]
  · simp only [List.foldl_append, List.foldl_cons, List.foldl_nil]
    unfold checksum
    simp only [List.cons_append, List.nil_append, List.foldl_cons]
    rw [foldl_add payload (0 + len + ah + al + t)]
    generalize payload.foldl (· + ·) 0 = s
    omega
  · simp [hlen]

theorem parse_recordText (r : Record) (h : recOk r) : parseRecord (recordText r) = some (toRec r) := by
  cases r with
  | data off v =>
    obtain ⟨ho, hv, hb⟩ := h
    have hmod : v.length % 256 = v.length := Nat.mod_eq_of_lt hv
    have earith : off / 256 % 256 * 256 + off % 256 = off := by omega
    obtain ⟨h1, h2, h3, h4⟩ := parse_region (v.length % 256) (off / 256 % 256) (off % 256) 0 v (by omega)
      (by omega) (Nat.mod_lt _ (by decide)) (Nat.mod_lt _ (by decide)) (by decide) hb
    simp only [recordText, recordFields, parseRecord]
    simp only [List.cons_append, List.nil_append, List.append_assoc] at h1 h2 h3 h4 ⊢
    rw [h1]
    simp only [h2, ne_eq, not_true_eq_false, if_false, h3, h4, toRec]
    rw [earith]
  | eof =>
    simp only [recordText, recordFields, parseRecord]
    decide
  | extSeg a =>
    have ha : a < 65536 := h
    have earith : a / 256 % 256 * 256 + a % 256 = a := by omega
    obtain ⟨h1, h2, h3, h4⟩ := parse_region 2 0 0 2 [a / 256 % 256, a % 256] rfl (by decide) (by decide) (by decide) (by decide)
      (by intro b hb; simp at hb; rcases hb with rfl | rfl <;> omega)
    simp only [recordText, recordFields, parseRecord]
    simp only [List.cons_append, List.nil_append, List.length_cons, List.length_nil] at h1 h2 h3 h4 ⊢
    rw [h1]
    simp only [h2, ne_eq, not_true_eq_false, if_false, h3, h4, toRec]
    rw [earith]
    simp
  | extLin a =>
    have ha : a < 65536 := h
    have earith : a / 256 % 256 * 256 + a % 256 = a := by omega
    obtain ⟨h1, h2, h3, h4⟩ := parse_region 2 0 0 4 [a / 256 % 256, a % 256] rfl (by decide) (by decide) (by decide) (by decide)
      (by intro b hb; simp at hb; rcases hb with rfl | rfl <;> omega)
    simp only [recordText, recordFields, parseRecord]
    simp only [List.cons_append, List.nil_append, List.length_cons, List.length_nil] at h1 h2 h3 h4 ⊢
    rw [h1]
    simp only [h2, ne_eq, not_true_eq_false, if_false, h3, h4, toRec]
    rw [earith]
    simp

theorem allSome_map_parse (rs : List Record) (h : ∀ r ∈ rs, recOk r) :
    allSome ((rs.map recordText).map parseRecord) = some (rs.map toRec) := by
  induction rs with
  | nil => rfl
  | cons r rs ih =>
    have hr := h r (by simp)
    have hrs : ∀ x ∈ rs, recOk x := fun x hx => h x (by simp [hx])
    simp only [List.map_cons, parse_recordText r hr, allSome, ih hrs, Option.map_some]

end Avra.Lemmas.Hex
