/-
  Line-protocol driver of the model (compiled with `lake build avra_driver`).  Same protocol as
  /verif/harness: one case per line in, one canonical result per line out.  Extra, driver-only
  lines configure the abstract file system (CWD / FSFILE / FSDIR / FSCLEAR).
-/
import Avra.Model.Build
import Avra.Model.Hex
import Avra.Model.Cli
import Avra.Spec.HexReader
import Avra.Spec.All
open Avra Avra.Model

def hexNib (c : Char) : Nat :=
  if '0' ≤ c ∧ c ≤ '9' then c.toNat - 48
  else if 'a' ≤ c ∧ c ≤ 'f' then c.toNat - 87
  else if 'A' ≤ c ∧ c ≤ 'F' then c.toNat - 55 else 0

def unhexBytes (s : String) : ByteArray := Id.run do
  let cs := s.toList.toArray
  let mut out := ByteArray.empty
  let mut i := 0
  while i + 1 < cs.size do
    out := out.push (UInt8.ofNat (hexNib cs[i]! * 16 + hexNib cs[i+1]!))
    i := i + 2
  return out

def unhexStr (s : String) : Str :=
  if s == "-" then [] else
  match String.fromUTF8? (unhexBytes s) with
  | some t => t.toList
  | none => []

def unhexNats (s : String) : List Nat :=
  if s == "-" then [] else (unhexBytes s).toList.map (·.toNat)

def hexOfNats (bs : List Nat) : String :=
  if bs.isEmpty then "-" else String.ofList (bs.flatMap hex2L)

def hexOfStr (s : Str) : String :=
  if s.isEmpty then "-" else hexOfNats ((String.ofList s).toUTF8.toList.map (·.toNat))

def canonOut (r : Out BuildResult) : String :=
  match r with
  | .ok b =>
    let msgs := joinWith '\n' b.messages
    s!"OK code={hexOfNats b.code} ee={hexOfNats b.eeprom} fs={b.flashSize} es={b.eepromSize} rs={b.ramSize} rf={b.ramFilling} msgs={hexOfStr msgs}"
  | .error e =>
    let ln := match e.line with | some n => toString n | none => "-"
    if e.kind.startsWith "cannot-read-file:" then
      s!"ERR line={ln} file={hexOfStr (e.kind.drop 17).toString.toList}"
    else s!"ERR line={ln}"
  | .panic _ => "PANIC"
  | .oof => "OOF"

structure DState where
  fs : Fs := {}

def exprCanon (t : Str) : String :=
  match Peg.expr t with
  | .ok e [] =>
    match eval initCtx e with
    | .ok v => s!"V {v}"
    | .err _ => "E"
    | .oof => "OOF"
  | .ok _ _ => "PF"
  | .fail => "PF"
  | .oof => "OOF"

def step (st : DState) (line : String) : DState × Option String :=
  match line.trimAscii.toString.splitOn " " with
  | ["CWD", p] => ({ st with fs := { st.fs with cwd := unhexStr p } }, none)
  | ["FSCLEAR"] => ({ st with fs := { st.fs with files := [], dirs := [] } }, none)
  | ["FSFILE", p, c] =>
    ({ st with fs := { st.fs with files := (normPath st.fs (unhexStr p), unhexStr c) :: st.fs.files } }, none)
  | ["FSDIR", p] => ({ st with fs := { st.fs with dirs := normPath st.fs (unhexStr p) :: st.fs.dirs } }, none)
  | [id, "B", src] => (st, some s!"{id} {canonOut (buildStr st.fs (unhexStr src))}")
  | [id, "X", t] => (st, some s!"{id} {exprCanon (unhexStr t)}")
  | [id, "H", img] =>
    -- the code writer gets the image, the EEPROM writer the image reversed (runs of 0xFF / 0x00 stay runs)
    let bs := unhexNats img
    let es := bs.reverse
    -- very large images: the EEPROM file is reported for every third length only (both sides of the protocol)
    let e := if bs.length ≤ 70000 ∨ bs.length % 3 = 0 then hexOfStr (Hex.fileText es) else "-"
    (st, some s!"{id} HEX2 {hexOfStr (Hex.fileText bs)} {e}")
  | [id, "F", main, dirs] =>
    let ds := if dirs == "-" then [] else (dirs.splitOn ",").map unhexStr
    (st, some s!"{id} {canonOut (buildFile st.fs (unhexStr main) ds)}")
  | [id, "C", src, o, e, inc] =>
    let opt (h : String) : Option Str := if h == "-" then none else some (unhexStr h)
    let r := Cli.run st.fs (unhexStr inc) { source := unhexStr src, output := opt o, eeprom := opt e }
    let out := match r with
      | .ok c => s!"EXIT {c.exit} FAIL {c.failures} WRITES " ++
          (if c.writes.isEmpty then "-" else ";".intercalate (c.writes.map fun (p, t) => hexOfStr p ++ ":" ++ hexOfStr t))
      | .error _ => "ERR"
      | .panic _ => "PANIC"
      | .oof => "OOF"
    (st, some s!"{id} {out}")
  | id :: "S" :: srcs =>
    (st, some (id ++ " " ++ " || ".intercalate (srcs.map fun h => canonOut (buildStr st.fs (unhexStr h)))))
  | id :: kind :: rest =>
    match Avra.Spec.specCommand kind rest with
    | some out => (st, some s!"{id} {out}")
    | none => (st, some s!"{id} BADKIND")
  | _ => (st, none)

partial def loop (h : IO.FS.Stream) (out : IO.FS.Stream) (st : DState) : IO Unit := do
  let line ← h.getLine
  if line.isEmpty then return ()
  let (st', o) := step st line
  match o with
  | some s => out.putStrLn s
  | none => pure ()
  loop h out st'

def main : IO Unit := do
  let stdin ← IO.getStdin
  let stdout ← IO.getStdout
  loop stdin stdout {}
  stdout.flush
